"""C07 - prefix and infix notation denote the same program.

Generated: well-typed expression trees over the 13 binary + 2 unary operators, int/bool literals, variables, struct
field chains, tuple indices and parenthesised calls, rendered twice - fully parenthesised prefix form and infix form
(chains without parentheses where left-to-right equal precedence makes them redundant, bare `not v` / `-v`) - inside
the same template program (let initialiser, if condition, call argument, return value).
Oracle (metamorphic, byte level): `nano_virt --emit-nvm` output is byte-identical for the two spellings in its code
section, function table and string pool, and `--run` prints the same; if one spelling is rejected both must be.
Exhaustive part: every typed operator pair (quick) and triple (thorough) at depth <= 3 over a fixed operand set.
"""
import itertools
import json
import os
import struct
import sys

from hypothesis import strategies as st

from . import common, harness, progen, refeval, runner
from .common import Evidence
from .harness import CaseFailure

PROP = "C07"
RULE = ("expression tree printed in prefix and in infix spelling inside one template; compared on the bytes of the code, "
        "function and string sections of the emitted .nvm and on --run output. non-trivial = the infix text has >= 2 "
        "operators outside parentheses in one chain, or a bare unary operator, or a postfix form (field / tuple index / "
        "call) as an operand; distinct by hash of the infix source. exhaustive part: all typed (op1, op2[, op3]) chains "
        "and their right-nested variants over fixed operands")

INT_OPS = ["+", "-", "*", "/", "%"]
CMP_OPS = ["==", "!=", "<", "<=", ">", ">="]
LOG_OPS = ["and", "or"]
ALL_OPS = INT_OPS + CMP_OPS + LOG_OPS


def op_sig(op):
    """list of (left, right, result) typings"""
    if op in INT_OPS:
        return [("int", "int", "int")]
    if op in ("==", "!="):
        return [("int", "int", "bool"), ("bool", "bool", "bool")]
    if op in CMP_OPS:
        return [("int", "int", "bool")]
    return [("bool", "bool", "bool")]


INT_ATOMS = [("var", "ia"), ("var", "ib"), ("var", "ic"), ("int", 5), ("int", -3)]
BOOL_ATOMS = [("var", "ba"), ("var", "bb"), ("bool", True)]
POSTFIX_INT = [("field", ("var", "p"), "x"), ("field", ("field", ("var", "q"), "p"), "y"), ("tidx", ("var", "t"), 1),
               ("call", "f", [("var", "ib")])]


def template(stmts, feats):
    P = lambda n: ("var", n)
    funcs = [{"name": "f", "params": [("a", "int")], "ret": "int", "recursive": False,
              "body": [("return", ("bin", "+", P("a"), ("int", 1), "p"))]},
             {"name": "g", "params": [("a", "bool")], "ret": "bool", "recursive": False,
              "body": [("return", ("un", "not", P("a"), "p"))]}]
    body = [("let", "ia", "int", ("int", 7), False), ("let", "ib", "int", ("int", 3), False),
            ("let", "ic", "int", ("int", 2), False), ("let", "ba", "bool", ("bool", True), False),
            ("let", "bb", "bool", ("bool", False), False),
            ("let", "p", ("struct", "T_P"), ("mk", "T_P", [("x", ("int", 4)), ("y", ("int", 9))]), False),
            ("let", "q", ("struct", "T_Q"), ("mk", "T_Q", [("p", ("mk", "T_P", [("x", ("int", 11)), ("y", ("int", 13))])), ("z", ("int", 1))]), False),
            ("let", "t", ("tuple", ("int", "int")), ("tup", [("int", 6), ("int", 8)]), False)]
    body += stmts
    body.append(("return", ("int", 0)))
    funcs.append({"name": "main", "params": [], "ret": "int", "body": body, "recursive": False})
    return {"structs": [("T_P", [("x", "int"), ("y", "int")]), ("T_Q", [("p", ("struct", "T_P")), ("z", "int")])],
            "enums": [], "unions": [], "globals": [], "funcs": funcs, "features": feats, "excluded": {}}


def place(exprs, no_let=False):
    """Statements using (expr, type) in the positions the property names."""
    out = []
    for i, (e, t) in enumerate(exprs):
        pos = i % 4 if not no_let else 1 + i % 3
        bare = e + ("bare",) if e[0] == "bin" and len(e) == 5 else (e + ("bare",) if e[0] == "un" and len(e) == 4 else e)
        if pos == 0:
            out.append(("let", "r%d" % i, t, bare, False))
            out.append(("println", ("var", "r%d" % i)))
        elif pos == 1:
            if t == "bool":
                out.append(("if", bare, [("println", ("int", 1))], [("println", ("int", 0))]))
            else:
                out.append(("if", ("bin", "<", e, ("int", 10), "i", "bare"), [("println", ("int", 1))], [("println", ("int", 0))]))
        elif pos == 2:
            out.append(("println", ("call", "f" if t == "int" else "g", [e])))
        else:
            out.append(("println", e))
    return out


# ----------------------------------------------------------------------------- random trees
@st.composite
def expr_tree(draw, t, depth, gates):
    def atom(tt):
        k = draw(st.integers(0, 9))
        if tt == "int":
            if k <= 5:
                return draw(st.sampled_from(INT_ATOMS))
            return draw(st.sampled_from(POSTFIX_INT))
        return draw(st.sampled_from(BOOL_ATOMS))

    def gen(tt, d, left_chain):
        if d <= 0 or draw(st.integers(0, 5)) == 0:
            return atom(tt)
        k = draw(st.integers(0, 9))
        if k == 0:
            op = "-" if tt == "int" else "not"
            inner = gen(tt, d - 1, False)
            return ("un", op, inner, "i")
        ops = [op for op in ALL_OPS if any(s[2] == tt for s in op_sig(op))]
        op = draw(st.sampled_from(ops))
        sigs = [s for s in op_sig(op) if s[2] == tt]
        lt, rt, _ = draw(st.sampled_from(sigs))
        a = gen(lt, d - 1, True)
        b = gen(rt, d - 1 if not left_chain else max(0, d - 2), False)
        if op in ("/", "%"):
            b = draw(st.sampled_from([("int", 5), ("var", "ib"), ("int", 2), ("int", -3)]))
        if not gates["postfix_on_right_operand"] and b[0] in ("field", "tidx", "call"):
            b = draw(st.sampled_from(INT_ATOMS))
        return ("bin", op, a, b, "i")
    return gen(t, depth, True)


@st.composite
def random_case(draw, gates, maxdepth):
    n = draw(st.integers(1, 4))
    exprs = []
    for _ in range(n):
        t = draw(st.sampled_from(["int", "bool"]))
        exprs.append((draw(expr_tree(t, draw(st.integers(1, maxdepth)), gates)), t))
    # size ramp: the same expressions repeated as hundreds / thousands of statements of one function (the nesting limit
    # of 1000 is per expression, so the number of statements must not matter to either spelling)
    rep = draw(st.sampled_from([1] * 12 + [300, 1100, 2500]))
    if rep > 1:
        if draw(st.booleans()):
            # make sure the repeated statements contain the forms only the infix spelling has: a bare unary operator at
            # the head of an unparenthesised chain (`if -ia + e < 10`, `if not ba and e`)
            e0, t0 = exprs[0]
            if t0 == "int":
                exprs[0] = (("bin", draw(st.sampled_from(["+", "-", "*"])), ("un", "-", ("var", draw(st.sampled_from(["ia", "ib", "ic"]))), "i"), e0, "i"), "int")
            else:
                exprs[0] = (("bin", draw(st.sampled_from(["and", "or"])), ("un", "not", ("var", draw(st.sampled_from(["ba", "bb"]))), "i"), e0, "i"), "bool")
        first = [exprs[0]] * 3 if len(exprs) == 1 else [exprs[0], exprs[1], exprs[0]]
        # the front end refuses files of more than 1 000 000 tokens (a stated sanity limit in the parser); the prefix
        # spelling has more tokens than the infix one, so the repetition count is capped to keep BOTH far below it
        import re as _re
        group_tokens = sum(len(_re.findall(r"[A-Za-z_][A-Za-z_0-9]*|-?\d+|[^\sA-Za-z_0-9]", progen.p_expr(e, "p"))) + 12 for e, _t in first)
        rep = max(2, min(rep, 300000 // max(1, group_tokens)))
        return template(place(first * rep, no_let=True)[: 3 * rep], {"random": 1, "repeated": rep})
    return template(place(exprs), {"random": 1})


# ----------------------------------------------------------------------------- exhaustive chains
def typed_atoms(t, i):
    return (INT_ATOMS if t == "int" else BOOL_ATOMS)[i % (3 if t == "int" else 2)]


def chains(nops):
    """All typed left chains a o1 b o2 c (o3 d) and the right-nested variants a o1 (b o2 c)."""
    out = []
    for ops in itertools.product(ALL_OPS, repeat=nops):
        # left chain: ((a o1 b) o2 c) o3 d
        def build_left(k, want):
            """expression for the first k operators producing type want, or None"""
            op = ops[k - 1]
            res = []
            for (lt, rt, r) in op_sig(op):
                if r != want:
                    continue
                if k == 1:
                    left = typed_atoms(lt, 0)
                else:
                    left = build_left(k - 1, lt)
                    if left is None:
                        continue
                right = typed_atoms(rt, k)
                if op in ("/", "%"):
                    right = ("int", 5)
                return ("bin", op, left, right, "i")
            return None
        for want in ("int", "bool"):
            e = build_left(nops, want)
            if e is not None:
                out.append((e, want, "left:" + " ".join(ops)))
        # right nested: a o1 (b o2 c)  [only the last operator nested]
        if nops >= 2:
            for (lt, rt, r) in op_sig(ops[0]):
                for (lt2, rt2, r2) in op_sig(ops[1]):
                    if r2 != rt:
                        continue
                    inner = ("bin", ops[1], typed_atoms(lt2, 1), ("int", 5) if ops[1] in ("/", "%") else typed_atoms(rt2, 2), "i")
                    if ops[0] in ("/", "%"):
                        continue
                    e = ("bin", ops[0], typed_atoms(lt, 0), inner, "i")
                    if nops == 3:
                        for (lt3, rt3, r3) in op_sig(ops[2]):
                            if lt3 == r:
                                e3 = ("bin", ops[2], e, ("int", 5) if ops[2] in ("/", "%") else typed_atoms(rt3, 3), "i")
                                out.append((e3, r3, "rightnest:" + " ".join(ops)))
                                break
                    else:
                        out.append((e, r, "rightnest:" + " ".join(ops)))
        # unary in front: not a o1 b / -a o1 b
        if nops <= 2:
            for (lt, rt, r) in op_sig(ops[0]):
                u = ("un", "not" if lt == "bool" else "-", typed_atoms(lt, 0) if typed_atoms(lt, 0)[0] == "var" else ("var", "ia" if lt == "int" else "ba"), "i")
                e = ("bin", ops[0], u, ("int", 5) if ops[0] in ("/", "%") else typed_atoms(rt, 1), "i")
                if nops == 2:
                    ok = False
                    for (lt2, rt2, r2) in op_sig(ops[1]):
                        if lt2 == r:
                            e = ("bin", ops[1], e, ("int", 5) if ops[1] in ("/", "%") else typed_atoms(rt2, 2), "i")
                            r = r2
                            ok = True
                            break
                    if not ok:
                        continue
                out.append((e, r, "unary:" + " ".join(ops)))
                break
    return out


# ----------------------------------------------------------------------------- nvm sections
SEC = {1: "code", 2: "strings", 3: "functions", 9: "debug", 8: "imports"}


def sections(blob):
    if len(blob) < 32 or blob[:4] != b"NVM\x01":
        return None
    n = struct.unpack_from("<I", blob, 16)[0]
    out = {"header_flags_entry": blob[8:16]}
    for i in range(n):
        t, off, size = struct.unpack_from("<III", blob, 32 + 12 * i)
        out[SEC.get(t, "sec%d" % t)] = blob[off:off + size]
    return out


class Ctx:
    pass


def make_ctx(widx, tier, opts):
    ctx = Ctx()
    ctx.tools = runner.Tools("plain")
    ctx.dir = os.path.join(common.scratch(), "w%d" % widx)
    os.makedirs(ctx.dir, exist_ok=True)
    _F, gated = harness.features_for(PROP)
    ctx.gates = {"postfix_on_right_operand": "postfix_on_right_operand" not in gated_names()}
    ctx.maxdepth = 6 if tier == "quick" else 12
    ctx.widx = widx
    return ctx


def gated_names():
    s = set()
    for f in common.load_ledger():
        if f["status"] == "open":
            s.update(f.get("gates", []))
    return s


def strategy(ctx):
    return random_case(ctx.gates, ctx.maxdepth)


def compile_both(ctx, prog, tag="p"):
    progen.PRINT_OPTS["postfix_on_right_operand"] = ctx.gates["postfix_on_right_operand"]
    src_i = progen.print_program(prog)
    src_p = progen.print_program(prog, so="p")
    res = {}
    for name, src in (("infix", src_i), ("prefix", src_p)):
        p = runner.write_src(ctx.dir, "%s_%s.nano" % (tag, name), src)
        o = p[:-5] + ".nvm"
        rc, out, err, to = ctx.tools.emit_nvm(p, o, ctx.dir)
        blob = open(o, "rb").read() if rc == 0 and os.path.exists(o) else None
        res[name] = {"rc": rc, "err": err, "to": to, "blob": blob, "path": p, "src": src}
    return src_i, src_p, res


def verdict(ctx, prog, tag="p", run=True):
    src_i, src_p, res = compile_both(ctx, prog, tag)
    a, b = res["infix"], res["prefix"]
    if a["to"] or b["to"]:
        return "inconclusive", "compile time-out", src_i, src_p
    if (a["blob"] is None) != (b["blob"] is None):
        which = "infix" if a["blob"] is None else "prefix"
        return "differ", "only the %s spelling is rejected: %s" % (which, (res[which]["err"][-300:]).decode("utf-8", "replace")), src_i, src_p
    if a["blob"] is None:
        return "both_rejected", "", src_i, src_p
    sa, sb = sections(a["blob"]), sections(b["blob"])
    for k in ("code", "functions", "strings", "header_flags_entry"):
        if sa.get(k) != sb.get(k):
            return "differ", "%s section differs between the two spellings" % k, src_i, src_p
    if run:
        ra = ctx.tools.run_vm(a["path"], ctx.dir)
        rb = ctx.tools.run_vm(b["path"], ctx.dir)
        if ra.cls == "inconclusive" or rb.cls == "inconclusive":
            return "inconclusive", "run time-out", src_i, src_p
        if ra.out != rb.out or ra.rc != rb.rc:
            return "differ", "--run output differs between the two spellings", src_i, src_p
    return "same", "", src_i, src_p


def infix_features(src_i):
    import re
    src_i = src_i[src_i.index("fn main"):]
    bare_unary = bool(re.search(r"(= |if |return )(not [a-z]|-[a-z])", src_i))
    postfix = bool(re.search(r"[a-z]\.[a-z0-9]+ [-+*/%<>=!a-z]|\(f [a-z]+\) [-+*/%<>=!]", src_i))
    chain = False
    for line in src_i.split("\n"):
        depth = 0
        cnt = {}
        toks = line.replace("(", " ( ").replace(")", " ) ").split()
        for tk in toks:
            if tk == "(":
                depth += 1
            elif tk == ")":
                depth -= 1
            elif tk in ALL_OPS:
                cnt[depth] = cnt.get(depth, 0) + 1
        if any(v >= 2 for v in cnt.values()):
            chain = True
    return chain, bare_unary, postfix


def run_case(ctx, prog, ev):
    v, detail, src_i, src_p = verdict(ctx, prog)
    chain, bare_unary, postfix = infix_features(src_i)
    ev.case(src_i, (chain or bare_unary or postfix) and v == "same")
    ev.cls("verdict_" + v)
    if chain:
        ev.cls("has_chain")
    if bare_unary:
        ev.cls("has_bare_unary")
    if postfix:
        ev.cls("has_postfix_operand")
    if prog["features"].get("repeated"):
        r_ = prog["features"]["repeated"]
        ev.cls("repeated_ge_1000_times" if r_ >= 1000 else ("repeated_ge_300_times" if r_ >= 300 else "repeated_lt_300_times"))
    if v == "inconclusive":
        ev.inconclusive += 1
    if v == "same" and chain and len(ev.samples) < 2 and ev.evaluations % 9 == 1:
        main_i = src_i[src_i.index("fn main"):]
        main_p = src_p[src_p.index("fn main"):]
        ev.sample({"infix": main_i[:1200], "prefix": main_p[:1200]})
    if v == "differ":
        raise CaseFailure(detail, {"prog": prog})


def describe_failure(ctx, prog, cf):
    progen.PRINT_OPTS["postfix_on_right_operand"] = ctx.gates["postfix_on_right_operand"]
    return {"src": json.dumps({"infix": progen.print_program(prog), "prefix": progen.print_program(prog, so="p")}),
            "detail": cf.detail, "payload": {}, "sigs": []}


def check_pair(ctx, src_i, src_p, run=True):
    """Replay of a saved pair of sources (no library)."""
    res = {}
    for name, src in (("infix", src_i), ("prefix", src_p)):
        p = runner.write_src(ctx.dir, "replay_%s.nano" % name, src)
        o = p[:-5] + ".nvm"
        rc, out, err, to = ctx.tools.emit_nvm(p, o, ctx.dir)
        res[name] = (open(o, "rb").read() if rc == 0 and os.path.exists(o) else None, p, err)
    a, b = res["infix"], res["prefix"]
    if (a[0] is None) != (b[0] is None):
        return True, "only one spelling is rejected"
    if a[0] is None:
        return False, "both rejected"
    sa, sb = sections(a[0]), sections(b[0])
    for k in ("code", "functions", "strings", "header_flags_entry"):
        if sa.get(k) != sb.get(k):
            return True, "%s section differs" % k
    if run:
        ra = ctx.tools.run_vm(a[1], ctx.dir)
        rb = ctx.tools.run_vm(b[1], ctx.dir)
        if ra.cls != "inconclusive" and rb.cls != "inconclusive" and (ra.out != rb.out or ra.rc != rb.rc):
            return True, "--run output differs"
    return False, "same"


def replay(path):
    ctx = make_ctx(0, "quick", {})
    d = json.load(open(path))
    bad, why = check_pair(ctx, d["infix"], d["prefix"])
    print("replay:", "DIFFER" if bad else "same", why)
    return 1 if bad else 0


def exhaustive_job(args):
    idx, nops, lo, hi = args
    ctx = make_ctx(300 + idx, "quick", {})
    cs = chains(nops)[lo:hi]
    bad = []
    n = 0
    # 8 expressions per program
    for i in range(0, len(cs), 8):
        group = cs[i:i + 8]
        prog = template(place([(e, t) for (e, t, _n) in group]), {"exhaustive": 1})
        v, detail, src_i, src_p = verdict(ctx, prog, tag="x", run=True)
        n += len(group)
        if v == "differ":
            # isolate the single chain
            for (e, t, name) in group:
                p1 = template(place([(e, t)]), {"exhaustive": 1})
                v1, d1, s_i, s_p = verdict(ctx, p1, tag="x1")
                if v1 == "differ":
                    bad.append({"chain": name, "detail": d1, "infix": s_i, "prefix": s_p})
                    break
            else:
                bad.append({"chain": "group", "detail": detail, "infix": src_i, "prefix": src_p})
            if len(bad) >= 3:
                break
    return {"n": n, "bad": bad}


def main(tier):
    ev = Evidence(PROP, tier, "exploration", RULE)
    ctx = make_ctx(99, tier, {})
    nviol = 0
    for f in common.open_findings(PROP):
        rp = os.path.join(common.VERIF, f["replay"][PROP])
        d = json.load(open(rp))
        bad, why = check_pair(ctx, d["infix"], d["prefix"])
        if bad:
            common.report_known(PROP, "%s [%s]" % (f["what"], f["id"]))
            ev.known.append(f["id"])
        else:
            print("note: known finding %s no longer reproduces" % f["id"])
    for f in common.fixed_findings(PROP):
        rp = os.path.join(common.VERIF, f["replay"][PROP])
        d = json.load(open(rp))
        bad, why = check_pair(ctx, d["infix"], d["prefix"])
        ev.cls("fixed_regression_replayed")
        if bad:
            print("C07: fixed finding %s is back: %s" % (f["id"], why))
            common.report_violation(PROP, rp)
            nviol += 1
    # exhaustive chains
    plan = [(1, len(chains(1))), (2, len(chains(2))), (3, len(chains(3)))]
    jobs = []
    for nops, total in plan:
        step = max(8, (total + common.NCPU - 1) // common.NCPU // 8 * 8)
        for j, lo in enumerate(range(0, total, step)):
            jobs.append((len(jobs), nops, lo, min(total, lo + step)))
    res = common.parallel_map(exhaustive_job, jobs)
    nex = 0
    for r in res:
        nex += r["n"]
        for b in r["bad"]:
            again = [check_pair(ctx, b["infix"], b["prefix"])[0] for _ in range(3)]
            if all(again):
                p = common.save_replay(PROP, "chain_%s.json" % b["chain"].replace(" ", "_").replace(":", "_").replace("/", "div").replace("%", "mod").replace("<", "lt").replace(">", "gt").replace("=", "eq").replace("!", "n").replace("*", "mul").replace("+", "add").replace("-", "sub"),
                                       json.dumps({"infix": b["infix"], "prefix": b["prefix"]}, indent=1))
                print("C07: chain %s: %s" % (b["chain"], b["detail"]))
                common.report_violation(PROP, p)
                nviol += 1
    ev.evaluations += nex
    ev.nontrivial_extra += nex
    ev.extra["exhaustive_chains"] = nex
    ev.extra["exhaustive_chain_arity"] = [p[0] for p in plan]
    ev.exhaustive = False
    # random trees
    total = 20000 if tier == "quick" else 120000
    results = harness.run_workers("pbt.c07_notation", tier, total)
    for r in results:
        ev.merge(r["evidence"])
        if r["error"]:
            print("C07: worker %d harness error (not a verdict):\n%s" % (r["widx"], r["error"]), file=sys.stderr)
            ev.cls("worker_errors")
        fl = r["failure"]
        if fl:
            d = json.loads(fl["src"])
            again = [check_pair(ctx, d["infix"], d["prefix"])[0] for _ in range(3)]
            if not all(again):
                ev.inconclusive += 1
                continue
            p = common.save_replay(PROP, "tree_seed%d_w%d.json" % (common.seed(), r["widx"]), json.dumps(d, indent=1))
            print("C07: %s\n--- infix main:\n%s" % (fl["detail"], d["infix"][d["infix"].index("fn main"):][:800]))
            common.report_violation(PROP, p)
            nviol += 1
    ev.extra["gates"] = ctx.gates
    if ev.classes.get("worker_errors"):
        ev.write()
        sys.exit(2)
    common.finish(ev, nviol)
