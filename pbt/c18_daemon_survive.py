"""C18 - the daemon survives malformed and abandoned client sessions.

Generated (stateful): sequences of up to 30 client behaviours, up to 8 of them open at the same time, from the
property's alphabet, played by a raw-socket Python client against a private daemon (hook H3), ASan build:
well-formed exec / ping / status; header only then close; payload truncated at length classes {0, 1, 7, 8, len/2,
len-1}; garbage bytes; wrong version; unknown message type; length > VMD_MAX_PAYLOAD; zero-length exec; a payload that
is not a module; hostile modules (well-checksummed but verifier-rejected, and loader-rejected ones); disconnect before /
during / after the output of a program that prints ~1 MiB; a stalled client that keeps its connection open.
Invariant after every step: the daemon process is alive and answers PING within 2 s; every well-formed session (also the
ones overlapping with offending sessions) gets exactly the standalone result; offending sessions end with an ERROR
frame or a closed connection; the ASan/UBSan daemon log stays clean.
"""
import json
import os
import socket
import struct
import sys
import time
import zlib

from hypothesis import strategies as st

from . import common, harness, runner
from .c17_daemon import Daemon
from .common import Evidence
from .harness import CaseFailure

PROP = "C18"
RULE = ("sequence of client behaviours (2-30 steps, some left open across later steps); non-trivial = contains >= 1 malformed / "
        "abandoned session and >= 1 well-formed exec that overlaps it (a malformed session is still open, or was abandoned "
        "while its program was running, when the well-formed one runs); distinct by sequence")

GOOD_SRC = 'fn main() -> int {\n    (println "good-begin")\n    let mut i: int = 0\n    while (< i 20) {\n        set i (+ i 1)\n        (println (+ "good " (int_to_string i)))\n    }\n    return 7\n}\nshadow main { assert true }\n'
BIG_SRC = 'fn main() -> int {\n    let mut i: int = 0\n    while (< i 40000) {\n        set i (+ i 1)\n        (println (+ "big-output-line-padding-padding " (int_to_string i)))\n    }\n    return 0\n}\nshadow main { assert true }\n'

BEHAVIOURS = ["exec_good", "exec_good", "ping", "status", "header_only", "trunc_0", "trunc_1", "trunc_7", "trunc_8", "trunc_half", "trunc_lenm1",
              "garbage", "wrong_version", "unknown_type", "len_over_max", "zero_len_exec", "not_a_module", "hostile_bad_jump", "hostile_bad_crc",
              "hostile_code_range", "hostile_underflow", "hostile_bad_local", "hostile_bad_call", "hostile_bad_str", "hostile_bad_global",
              "hostile_bad_opcode", "hostile_truncated_operand", "hostile_entry_index", "hostile_upvalue_without_closure", "disconnect_before_output", "disconnect_during_output", "disconnect_after_output", "stall_open", "stall_header",
              "exec_big_complete"]


@st.composite
def sequence(draw):
    n = draw(st.integers(2, 30))
    return [draw(st.sampled_from(BEHAVIOURS)) for _ in range(n)]


def hdr(typ, ln, version=1):
    return struct.pack("<BBHI", version, typ, 0, ln)


def read_exact(s, n, timeout=10.0):
    s.settimeout(timeout)
    buf = b""
    try:
        while len(buf) < n:
            c = s.recv(n - len(buf))
            if not c:
                return None
            buf += c
    except (socket.timeout, OSError):
        return None
    return buf


def read_session(s, timeout=30.0):
    """Collect frames until EXIT_CODE / close. Returns (output bytes, exit code or None, errors list, closed)."""
    out = b""
    errs = []
    code = None
    t_end = time.time() + timeout
    while time.time() < t_end:
        h = read_exact(s, 8, max(0.1, t_end - time.time()))
        if h is None:
            return out, code, errs, True
        ver, typ, fl, ln = struct.unpack("<BBHI", h)
        p = read_exact(s, ln, max(0.1, t_end - time.time())) if ln else b""
        if p is None:
            return out, code, errs, True
        if typ == 0x10:
            out += p
        elif typ == 0x11:
            code = struct.unpack("<i", p[:4])[0] if len(p) >= 4 else None
            return out, code, errs, False
        elif typ == 0x12:
            errs.append(p)
        elif typ in (0x13, 0x14):
            return p, 0, errs, False
    return out, code, errs, False


HOSTILE_CODE = {
    # name -> instruction bytes written over the start of the entry function (rest filled with NOP, last byte RET)
    "hostile_underflow": bytes([0x08, 0x08, 0x08, 0x3D]),
    "hostile_bad_local": bytes([0x10, 0xFF, 0xFF, 0x3D]),
    "hostile_bad_call": bytes([0x3B, 0xFF, 0xFF, 0xFF, 0x00, 0x3D]),
    "hostile_bad_str": bytes([0x04, 0xFF, 0xFF, 0xFF, 0x00, 0xA0, 0x3D]),
    "hostile_bad_global": bytes([0x12, 0xFF, 0xFF, 0xFF, 0x00, 0x3D]),
    "hostile_bad_jump": bytes([0x38, 0x00, 0xFF, 0xFF, 0x7F]),
    "hostile_bad_opcode": bytes([0xFF, 0xFE, 0xFD]),
    "hostile_truncated_operand": None,      # PUSH_I64 as the very last byte of the function
}


def make_hostile(good):
    """Variants of a compiler-produced module: name -> bytes (checksum recomputed unless the name says otherwise)."""
    def recrc(b):
        b = bytearray(b)
        struct.pack_into("<I", b, 28, zlib.crc32(bytes(b[32:])) & 0xffffffff)
        return bytes(b)
    out = {}
    b = bytearray(good)
    entry = struct.unpack_from("<I", b, 12)[0]
    n = struct.unpack_from("<I", b, 16)[0]
    secs = {}
    for i in range(n):
        t, off, size = struct.unpack_from("<III", b, 32 + 12 * i)
        secs[t] = (off, size)
    coff, csize = secs[1]
    foff, fsize = secs[3]
    e = foff + 18 * entry
    f_code, f_len = struct.unpack_from("<II", b, e + 6)
    for name, code in HOSTILE_CODE.items():
        bb = bytearray(b)
        body = bytearray(f_len)                       # NOPs
        if code is None:
            body[f_len - 1] = 0x01
        else:
            body[:len(code)] = code
            body[f_len - 1] = 0x3D
        bb[coff + f_code: coff + f_code + f_len] = body
        out[name] = recrc(bb)
    # verifier-acceptable but unusual: the entry function declares an upvalue and loads it although it is not entered
    # through a closure (the stand-alone VM decides what the result is; the daemon must give the same and survive)
    bb = bytearray(b)
    body = bytearray(f_len)
    body[0:5] = bytes([0x14, 0x00, 0x00, 0x00, 0x00])      # LOAD_UPVALUE depth 0, index 0
    body[5] = 0x08          # POP
    body[f_len - 1] = 0x3D  # RET
    bb[coff + f_code: coff + f_code + f_len] = body
    struct.pack_into("<H", bb, e + 16, 1)              # upvalue_count of the entry function
    out["hostile_upvalue_without_closure"] = recrc(bb)
    bb = bytearray(b)
    struct.pack_into("<I", bb, e + 6, 0xFFFFFFF0)      # code_offset of the entry function
    struct.pack_into("<I", bb, e + 10, 0x00000040)     # code_length
    out["hostile_code_range"] = recrc(bb)
    bb = bytearray(b)
    struct.pack_into("<I", bb, 12, 0x00FFFFFF)         # entry point index
    out["hostile_entry_index"] = recrc(bb)
    bb = bytearray(b)
    bb[-1] ^= 0xFF
    out["hostile_bad_crc"] = bytes(bb)
    return out


class Ctx:
    pass


def make_ctx(widx, tier, opts):
    ctx = Ctx()
    ctx.plain = runner.Tools("plain")
    ctx.asan = runner.Tools("asan")
    ctx.dir = os.path.join(common.disk_scratch(), "w%d" % widx)
    os.makedirs(ctx.dir, exist_ok=True)
    ctx.daemon = None
    mods = {}
    for name, src in (("good", GOOD_SRC), ("big", BIG_SRC)):
        p = runner.write_src(ctx.dir, name + ".nano", src)
        nvm = p[:-5] + ".nvm"
        rc, out, err, to = ctx.plain.emit_nvm(p, nvm, ctx.dir)
        if rc != 0:
            raise SystemExit("C18: fixed program %s does not compile (machinery error)" % name)
        mods[name] = open(nvm, "rb").read()
        r = common.run([ctx.plain.vm, nvm], timeout=120, cwd=ctx.dir, env=ctx.plain.env)
        mods[name + "_expect"] = (r[1], r[0])
    ctx.mods = mods
    ctx.hostile = {}
    for name, blob in make_hostile(mods["good"]).items():
        hp = os.path.join(ctx.dir, name + ".nvm")
        open(hp, "wb").write(blob)
        rc, out, err, to = common.run([ctx.plain.vm, hp], timeout=20, cwd=ctx.dir, env=ctx.plain.env)[:4]
        # "refused" = the stand-alone VM does not run it to a normal end
        ctx.hostile[name] = (blob, out, rc, rc != 0 or to)
    return ctx


def daemon(ctx):
    if ctx.daemon is None or not ctx.daemon.alive():
        ctx.daemon = Daemon(ctx.asan, ctx.dir, "c18")
        if not ctx.daemon.start():
            raise RuntimeError("daemon did not start: %s" % ctx.daemon.log_text()[-300:])
    return ctx.daemon


def connect(d, timeout=3.0):
    s = socket.socket(socket.AF_UNIX, socket.SOCK_STREAM)
    s.settimeout(timeout)
    s.connect(d.sock)
    return s


def ping_ok(d):
    try:
        s = connect(d, 2.0)
        s.sendall(hdr(0x02, 0))
        h = read_exact(s, 8, 2.0)
        s.close()
        return h is not None and h[1] == 0x13
    except OSError:
        return False


def exec_and_check(ctx, d, name):
    s = connect(d)
    blob = ctx.mods[name]
    s.sendall(hdr(0x01, len(blob)) + blob)
    out, code, errs, closed = read_session(s, 60.0)
    s.close()
    eout, erc = ctx.mods[name + "_expect"]
    if out != eout or code != erc:
        return "well-formed session got output of %d bytes / exit %s, standalone gives %d bytes / exit %s (errors %r)" % (len(out), code, len(eout), erc, errs[:1])
    return None


def play(ctx, seq):
    d = daemon(ctx)
    log_off = len(d.log_text())      # the daemon log is appended to across cases: only what this case adds is judged
    open_socks = []
    problems = []
    stats = {"malformed": 0, "wellformed": 0, "overlap": 0}
    blob = ctx.mods["good"]
    for step, b in enumerate(seq):
        try:
            if b == "exec_good" or b == "exec_big_complete":
                stats["wellformed"] += 1
                if open_socks:
                    stats["overlap"] += 1
                e = exec_and_check(ctx, d, "good" if b == "exec_good" else "big")
                if e:
                    problems.append("step %d (%s): %s" % (step, b, e))
            elif b == "ping":
                if not ping_ok(d):
                    problems.append("step %d: PING not answered within 2 s" % step)
            elif b == "status":
                # bookkeeping: the daemon counts every connected session, so with k sessions of this client still open the
                # reply must (after the threads of just-closed sessions have ended) say k + 1 (the STATUS session itself)
                expected = len(open_socks) + 1
                last = None
                t_end = time.time() + 4.0
                while True:
                    s = connect(d)
                    s.sendall(hdr(0x03, 0))
                    p, code, errs, closed = read_session(s, 3.0)
                    s.close()
                    if not p.startswith(b"active_clients="):
                        problems.append("step %d: STATUS reply %r" % (step, p[:40]))
                        break
                    try:
                        last = int(p.split(b"=", 1)[1].split()[0])
                    except ValueError:
                        problems.append("step %d: STATUS reply %r" % (step, p[:40]))
                        break
                    if last == expected or time.time() > t_end:
                        break
                    time.sleep(0.1)
                if last is not None and last < expected:
                    problems.append("step %d: STATUS reports active_clients=%d while %d other sessions are open (bookkeeping corrupted by an earlier session)" % (step, last, expected - 1))
                elif last is not None and last > expected:
                    stats["status_count_high"] = stats.get("status_count_high", 0) + 1       # slow clean-up of abandoned sessions: not a verdict
            else:
                stats["malformed"] += 1
                s = connect(d)
                keep = False
                if b == "header_only":
                    s.sendall(hdr(0x01, len(blob)))
                elif b.startswith("trunc_"):
                    n = {"0": 0, "1": 1, "7": 7, "8": 8, "half": len(blob) // 2, "lenm1": len(blob) - 1}[b[6:]]
                    s.sendall(hdr(0x01, len(blob)) + blob[:n])
                elif b == "garbage":
                    s.sendall(bytes((i * 73 + 11) & 0xFF for i in range(300)))
                elif b == "wrong_version":
                    s.sendall(hdr(0x01, len(blob), version=9) + blob)
                elif b == "unknown_type":
                    s.sendall(hdr(0x7E, 4) + b"abcd")
                elif b == "len_over_max":
                    s.sendall(hdr(0x01, 0x7FFFFFFF))
                elif b == "zero_len_exec":
                    s.sendall(hdr(0x01, 0))
                elif b == "not_a_module":
                    junk = b"this is not a module " * 20
                    s.sendall(hdr(0x01, len(junk)) + junk)
                elif b.startswith("hostile_"):
                    hb, sout, src_, refused = ctx.hostile[b]
                    s.sendall(hdr(0x01, len(hb)) + hb)
                    out, code, errs, closed = read_session(s, 10.0)
                    if refused:
                        if code == 0 and not errs:
                            problems.append("step %d (%s): the stand-alone VM refuses this module (exit %s), the daemon session ended with a success reply" % (step, b, src_))
                        elif code is None and not errs and not closed:
                            problems.append("step %d (%s): the session of a hostile module did not end within 10 s" % (step, b))
                    elif out != sout or code != src_:
                        problems.append("step %d (%s): module accepted by the stand-alone VM (exit %s) but the daemon session gave exit %s / different output" % (step, b, src_, code))
                elif b == "disconnect_before_output":
                    s.sendall(hdr(0x01, len(ctx.mods["big"])) + ctx.mods["big"])
                elif b == "disconnect_during_output":
                    s.sendall(hdr(0x01, len(ctx.mods["big"])) + ctx.mods["big"])
                    read_exact(s, 5000, 5.0)
                elif b == "disconnect_after_output":
                    s.sendall(hdr(0x01, len(blob)) + blob)
                    read_session(s, 10.0)
                elif b == "stall_open":
                    keep = True
                elif b == "stall_header":
                    s.sendall(hdr(0x01, len(blob))[:5])
                    keep = True
                if keep and len(open_socks) < 8:
                    open_socks.append(s)
                else:
                    s.close()
        except OSError as e:
            problems.append("step %d (%s): socket error %s" % (step, b, e))
        if not d.alive():
            problems.append("after step %d (%s): the daemon process is gone: %s" % (step, b, d.log_text()[log_off:][-400:].decode("utf-8", "replace")))
            break
        if not ping_ok(d):
            problems.append("after step %d (%s): the daemon does not answer PING within 2 s" % (step, b))
            break
    # one more well-formed session at the end, with stalled clients still connected
    if not problems:
        stats["wellformed"] += 1
        if open_socks:
            stats["overlap"] += 1
        try:
            e = exec_and_check(ctx, d, "good")
            if e:
                problems.append("final session: " + e)
        except OSError as ex:
            problems.append("final session: socket error %s" % ex)
    for s in open_socks:
        try:
            s.close()
        except OSError:
            pass
    lg = d.log_text()[log_off:]
    if runner.sanitizer_report(lg):
        import re
        m = re.search(rb"(ERROR: AddressSanitizer: [^\n]*|[^\n]*runtime error:[^\n]*)", lg)
        problems.append("sanitizer report in the daemon: %s" % (m.group(1).decode("utf-8", "replace")[:300] if m else ""))
    return problems, stats


def strategy(ctx):
    return sequence()


def run_case(ctx, seq, ev):
    problems, stats = play(ctx, seq)
    ev.case(json.dumps(seq), not problems and stats["malformed"] >= 1 and stats["wellformed"] >= 1 and stats["overlap"] >= 1)
    ev.cls("verdict_" + ("violation" if problems else "ok"))
    ev.cls("sessions_malformed", stats["malformed"])
    ev.cls("sessions_wellformed", stats["wellformed"])
    if stats.get("status_count_high"):
        ev.cls("status_count_still_high_after_4s", stats["status_count_high"])
    for b in set(seq):
        ev.cls("behaviour_" + b)
    if not problems and stats["overlap"] and len(ev.samples) < 2:
        ev.sample({"sequence": seq})
    if problems:
        # a dead daemon must not poison the following cases
        if ctx.daemon:
            ctx.daemon.stop()
            ctx.daemon = None
        raise CaseFailure("; ".join(problems[:2]), {})


def describe_failure(ctx, seq, cf):
    return {"src": json.dumps(seq), "detail": cf.detail, "payload": {}, "sigs": []}


def shutdown(ctx):
    if ctx.daemon:
        ctx.daemon.stop()
        ctx.daemon = None


def replay(path):
    ctx = make_ctx(0, "quick", {})
    try:
        problems, stats = play(ctx, json.load(open(path)))
    finally:
        shutdown(ctx)
    print("replay:", "VIOLATION: " + "; ".join(problems) if problems else "ok", stats)
    return 1 if problems else 0


def worker_main(args):
    (widx, ncases, tier, sd, opts) = args
    from hypothesis import given, settings, seed as hseed, HealthCheck, Phase
    ev = common.Evidence(PROP, tier)
    res = {"widx": widx, "failure": None, "error": None}
    ctx = None
    try:
        ctx = make_ctx(widx, tier, opts)
        state = {}
        budget = 60 if tier == "quick" else 200

        @hseed(sd * 1000 + widx)
        @settings(max_examples=ncases, database=None, deadline=None, report_multiple_bugs=False, suppress_health_check=list(HealthCheck),
                  phases=[Phase.generate, Phase.shrink])
        @given(strategy(ctx))
        def prop(c):
            if "t_fail" in state and time.time() - state["t_fail"] > budget:
                return
            try:
                run_case(ctx, c, ev)
            except CaseFailure as cf:
                state.setdefault("t_fail", time.time())
                state["last"] = (c, cf)
                raise
        try:
            prop()
        except CaseFailure:
            c, cf = state["last"]
            res["failure"] = describe_failure(ctx, c, cf)
        except Exception:
            if "last" in state:
                c, cf = state["last"]
                res["failure"] = describe_failure(ctx, c, cf)
            else:
                import traceback
                res["error"] = traceback.format_exc()[-2000:]
    except Exception:
        import traceback
        res["error"] = traceback.format_exc()[-2000:]
    finally:
        if ctx is not None:
            shutdown(ctx)
    res["evidence"] = ev.partial()
    return res


def main(tier):
    ev = Evidence(PROP, tier, "exploration", RULE)
    sd = common.seed()
    nviol = 0
    common.build("plain")
    common.build("asan")
    ctx = make_ctx(99, tier, {})
    try:
        for f in common.fixed_findings(PROP):
            rp = os.path.join(common.VERIF, f["replay"][PROP])
            ev.cls("fixed_regression_replayed")
            problems, stats = play(ctx, json.load(open(rp)))
            if problems:
                print("C18: fixed finding %s is back: %s" % (f["id"], problems[0][:300]))
                common.report_violation(PROP, rp)
                nviol += 1
        for f in common.open_findings(PROP):
            problems, stats = play(ctx, json.load(open(os.path.join(common.VERIF, f["replay"][PROP]))))
            if problems:
                common.report_known(PROP, "%s [%s]" % (f["what"], f["id"]))
                ev.known.append(f["id"])
    finally:
        shutdown(ctx)
    total = 96 if tier == "quick" else 5000
    nworkers = 8
    import multiprocessing as mp
    per = max(1, (total + nworkers - 1) // nworkers)
    jobs = [(w, per, tier, sd, {}) for w in range(nworkers)]
    with mp.get_context("fork").Pool(nworkers) as pool:
        results = pool.map(worker_main, jobs, chunksize=1)
    for r in results:
        ev.merge(r["evidence"])
        if r["error"]:
            print("C18: worker %d harness error (not a verdict):\n%s" % (r["widx"], r["error"]), file=sys.stderr)
            ev.cls("worker_errors")
        fl = r["failure"]
        if fl:
            seq = json.loads(fl["src"])
            cctx = make_ctx(98, tier, {})
            try:
                again = []
                for _ in range(3):
                    pr, _s = play(cctx, seq)
                    again.append(bool(pr))
                    if pr and cctx.daemon:
                        cctx.daemon.stop()
                        cctx.daemon = None
            finally:
                shutdown(cctx)
            if sum(again) < 2:
                if os.environ.get("VERIF_DEBUG"):
                    print("C18 debug: unconfirmed %s: %s (%s)" % (seq, again, fl["detail"][:300]), file=sys.stderr)
                ev.inconclusive += 1
                ev.cls("unconfirmed_failure")
                continue
            p = common.save_replay(PROP, "sequence_seed%d_w%d.json" % (sd, r["widx"]), json.dumps(seq, indent=1))
            print("C18: %s\n  sequence: %s" % (fl["detail"][:700], seq))
            common.report_violation(PROP, p)
            nviol += 1
    ev.assumptions = ["the daemon runs as the ASan/UBSan build; interleavings are whatever the scheduler produces", "a failure must reproduce in 2 of 3 re-runs of the shrunk sequence"]
    if ev.classes.get("worker_errors"):
        ev.write()
        sys.exit(2)
    common.finish(ev, nviol)
