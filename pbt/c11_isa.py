"""C11 - instruction encoding and textual assembly are exact inverses.

(a) exhaustive opcode x boundary-operand grid, all truncations, (b) random operand tuples,
(c) random byte strings (rapidcheck, in-process probe under ASan/UBSan);
(d) assemble(disassemble(m)) == m on code / function table / string pool for modules the
    compiler produces from generated programs (Hypothesis) and from the repository's own
    tests and examples.
"""
import glob
import json
import os
import re
import subprocess
import sys

from hypothesis import given, settings, strategies as st, seed as hseed, HealthCheck, Phase

from . import common
from .common import Evidence

PROP = "C11"
RULE = ("instructions: all 256 opcode bytes x cross product of 29 boundary bit patterns per operand slot "
        "+ rapidcheck random operand tuples + random byte strings; non-trivial = an operand with a non-zero "
        "high byte (distinct by encoded bytes). modules: compiler output for generated programs "
        "(string literals over a hostile alphabet, nested if/while/for/match shapes, many functions) and for "
        "/repo tests+examples; non-trivial = module has >= 1 forward and >= 1 backward jump (distinct by file hash)")

# ----------------------------------------------------------------------------- program generator (d)
SAFE = "abcXYZ019 _-+*/=<>()[]{}.,:!?@$%^&|~'`"
HOSTILE = [";", "#", "\\\\", "\\\"", "\\n", "\\t", "\t", ";;", "#;", " ;", "; \\\"", "\\\\;", "\\0", "\x7f", "é", "中",
           "\r", "\n", "%s", "%d", "  ", " "]


@st.composite
def str_lit(draw):
    n = draw(st.integers(0, 6))
    parts = []
    for _ in range(n):
        if draw(st.integers(0, 2)) == 0:
            parts.append(draw(st.sampled_from(HOSTILE)))
        else:
            parts.append(draw(st.text(alphabet=SAFE, min_size=1, max_size=5)))
    s = "".join(parts)
    if draw(st.integers(0, 30)) == 0:
        s = s + "x" * draw(st.sampled_from([300, 4090, 4095, 4096, 4097, 5000]))
    return s


@st.composite
def stmts(draw, depth, ctr):
    out = []
    for _ in range(draw(st.integers(1, 3 if depth else 4))):
        k = draw(st.integers(0, 9 if depth < 3 else 3))
        ind = "    " * (depth + 1)
        if k <= 3:
            out.append('%s(println "%s")' % (ind, draw(str_lit())))
        elif k == 4:
            out.append("%sset acc (+ acc %d)" % (ind, draw(st.integers(-3, 300))))
        elif k == 5:
            c = draw(st.sampled_from(["(< acc 5)", "(== n 3)", "(> n acc)", "true", "(not (== acc n))"]))
            out.append("%sif %s {" % (ind, c))
            out += draw(stmts(depth + 1, ctr))
            if draw(st.booleans()):
                out.append("%s} else {" % ind)
                out += draw(stmts(depth + 1, ctr))
            out.append("%s}" % ind)
        elif k == 6:
            ctr[0] += 1
            v = "w%d" % ctr[0]
            out.append("%slet mut %s: int = 0" % (ind, v))
            out.append("%swhile (< %s %d) {" % (ind, v, draw(st.integers(0, 3))))
            out.append("%s    set %s (+ %s 1)" % (ind, v, v))
            if draw(st.integers(0, 3)) == 0:
                out.append("%s    if (== %s 1) { break } else { (print \"\") }" % (ind, v))
            out += draw(stmts(depth + 1, ctr))
            out.append("%s}" % ind)
        elif k == 7:
            ctr[0] += 1
            v = "i%d" % ctr[0]
            out.append("%sfor %s in (range 0 %d) {" % (ind, v, draw(st.integers(0, 3))))
            out += draw(stmts(depth + 1, ctr))
            out.append("%s}" % ind)
        elif k == 8:
            out.append("%s(println (cond ((< acc 3) \"%s\") ((< acc 9) \"%s\") (else \"%s\")))" %
                       (ind, draw(str_lit()), draw(str_lit()), draw(str_lit())))
        else:
            out.append("%smatch u {" % ind)
            out.append("%s    Ok(o) => { (println o.v) }" % ind)
            out.append("%s    Err(e) => { (println e.msg) }" % ind)
            out.append("%s}" % ind)
    return out


@st.composite
def program(draw):
    nf = draw(st.integers(1, 5))
    src = ["union R { Ok { v: int }, Err { code: int, msg: string } }", ""]
    for i in range(nf):
        ctr = [0]
        src.append("fn f_%d(n: int, u: R) -> int {" % i)
        src.append("    let mut acc: int = n")
        src += draw(stmts(0, ctr))
        src.append("    return acc")
        src.append("}")
        src.append("shadow f_%d { assert true }" % i)
        src.append("")
    src.append("fn main() -> int {")
    for i in range(nf):
        src.append("    (println (f_%d %d (R.Err { code: 1, msg: \"%s\" })))" % (i, i, draw(str_lit())))
    src.append("    return 0")
    src.append("}")
    src.append("shadow main { assert true }")
    return "\n".join(src) + "\n"


def big_label_program(nfun, nif, loops=False):
    """Deterministic family: many jump targets per function / per module (assembler and disassembler tables).
    With loops=True a while and a for loop follow every 100 conditionals and close the function: beyond the
    disassembler's label table the back edges are printed as negative numeric offsets."""
    src = []
    for i in range(nfun):
        src.append("fn g_%d(n: int) -> int {" % i)
        src.append("    let mut acc: int = 0")
        for j in range(nif):
            src.append("    if (== n %d) { set acc (+ acc %d) } else { set acc (+ acc 1) }" % (j, j))
            if loops and (j % 100 == 99 or j == nif - 1):
                src.append("    let mut w_%d: int = 0" % j)
                src.append("    while (< w_%d 3) {" % j)
                src.append("        set w_%d (+ w_%d 1)" % (j, j))
                src.append("        if (== w_%d 2) { continue }" % j)
                src.append("        set acc (+ acc 1)")
                src.append("    }")
                src.append("    for q_%d in (range 0 2) { set acc (+ acc q_%d) }" % (j, j))
        src.append("    return acc")
        src.append("}")
        src.append("shadow g_%d { assert true }" % i)
    src.append("fn main() -> int {")
    for i in range(nfun):
        src.append("    (println (g_%d %d))" % (i, i))
    src.append("    return 0\n}\nshadow main { assert true }")
    return "\n".join(src) + "\n"


# ----------------------------------------------------------------------------- running
class Ctx:
    pass


def compile_nvm(ctx, src, name):
    p = os.path.join(ctx.dir, name + ".nano")
    o = os.path.join(ctx.dir, name + ".nvm")
    with open(p, "w", encoding="utf-8", newline="") as fh:
        fh.write(src)
    if os.path.exists(o):
        os.unlink(o)
    rc, out, err, to = common.run([ctx.virt, p, "--emit-nvm", "-o", o], timeout=30, cwd=ctx.dir)
    if to:
        return None, "timeout"
    if rc != 0 or not os.path.exists(o):
        return None, "rejected"
    return o, "ok"


def asm_check(ctx, path):
    rc, out, err, to = common.run([ctx.probe, "asm", path], timeout=60,
                                  env=dict(os.environ, ASAN_OPTIONS="detect_leaks=0:abort_on_error=0"))
    text = out.decode("utf-8", "replace")
    if to:
        return "inconclusive", "timeout"
    if rc == 0 and text.startswith("OK "):
        return "ok", text[3:].split("|")[0].strip()
    if text.startswith("FAIL "):
        return "fail", text[5:].split("|")[0].strip()
    return "fail", "probe died rc=%s: %s" % (rc, (err.decode("utf-8", "replace") or text)[-600:])


def replay(path):
    """Replay file: a .nano program (module round trip), or a text file with 'instr ...' / 'bytes ...' lines."""
    ctx = setup()
    if path.endswith(".nano"):
        src = open(path, encoding="utf-8", newline="").read()
        o, st_ = compile_nvm(ctx, src, "replay")
        if not o:
            print("replay: program not accepted (%s)" % st_)
            return 0
        s, d = asm_check(ctx, o)
        print("replay:", s, d)
        return 1 if s == "fail" else 0
    bad = 0
    for line in open(path):
        w = line.split()
        if not w:
            continue
        r = subprocess.run([ctx.probe] + w, capture_output=True, text=True,
                           env=dict(os.environ, ASAN_OPTIONS="detect_leaks=0"))
        print(line.strip(), "->", r.stdout.strip() or r.stderr[-300:])
        if r.returncode != 0:
            bad = 1
    return bad


def setup():
    ctx = Ctx()
    b = common.build("plain")
    ctx.virt = os.path.join(b, "bin", "nano_virt")
    ctx.probe = common.build_probe("isa_probe", "asan")
    ctx.dir = common.scratch()
    return ctx


def confirm(ctx, src):
    """Re-execute a failing program three times without the library."""
    n = 0
    for i in range(3):
        o, st_ = compile_nvm(ctx, src, "confirm%d" % i)
        if o and asm_check(ctx, o)[0] == "fail":
            n += 1
    return n == 3


def main(tier):
    ev = Evidence(PROP, tier, "exploration", RULE)
    ctx = setup()
    sd = common.seed()
    nviol = 0

    # ---- known findings (open) are replayed first; fixed ones are regression cases
    known_sigs = []
    for f in common.open_findings(PROP):
        rp = os.path.join(common.VERIF, f["replay"][PROP])
        if replay_quiet(ctx, rp):
            common.report_known(PROP, f["what"])
            ev.known.append(f["id"])
        known_sigs.append(f.get("signature", ""))
    for f in common.fixed_findings(PROP):
        rp = os.path.join(common.VERIF, f["replay"][PROP])
        if replay_quiet(ctx, rp):
            common.report_violation(PROP, rp)
            nviol += 1

    # ---- (a)(b)(c) in-process instruction probe
    ms = 50000 if tier == "quick" else 2000000
    env = dict(os.environ, RC_PARAMS="seed=%d max_success=%d max_size=300" % (sd + 1, ms),
               ASAN_OPTIONS="detect_leaks=0")
    r = subprocess.run([ctx.probe, "enc"], capture_output=True, text=True, env=env)
    summ = None
    fails = []
    for line in r.stdout.splitlines():
        if line.startswith("SUMMARY "):
            summ = json.loads(line[8:])
        elif line.startswith("FAIL "):
            fails.append(line[5:])
    if summ is None:
        # sanitizer abort or crash: the probe died before the summary
        p = common.save_replay(PROP, "probe_crash_seed%d.txt" % sd, "enc\n# probe died:\n# " +
                               (r.stderr[-3000:].replace("\n", "\n# ")))
        common.report_violation(PROP, p)
        nviol += 1
    else:
        ev.evaluations += summ["evaluations"]
        ev.nontrivial_extra += summ["distinct_nontrivial"]
        for s in summ["samples"]:
            ev.sample({"instruction": s})
        for k, v in summ["classes"].items():
            ev.cls(k, v)
        ev.extra["instruction_grid_cases"] = summ["grid_cases"]
        ev.extra["instruction_grid_exhaustive"] = True
    for i, f in enumerate(fails):
        what, _, rep = f.partition(" | ")
        p = common.save_replay(PROP, "instr_seed%d_%d.txt" % (sd, i), rep + "\n")
        # confirm three times without the library
        okc = all(subprocess.run([ctx.probe] + rep.split(), capture_output=True,
                                 env=dict(os.environ, ASAN_OPTIONS="detect_leaks=0")).returncode != 0 for _ in range(3))
        if okc:
            print("C11 instruction failure: %s" % what)
            common.report_violation(PROP, p)
            nviol += 1

    # ---- (d) module round trips: repository files
    files = sorted(glob.glob(os.path.join(common.REPO, "tests", "*.nano")) +
                   glob.glob(os.path.join(common.REPO, "examples", "language", "*.nano")))
    if tier == "quick":
        files = files[sd % 3::3]
    for i, f in enumerate(files):
        try:
            src = open(f, encoding="utf-8", newline="").read()
        except (OSError, UnicodeDecodeError):
            continue
        # compile from the original location so that relative imports resolve
        o = os.path.join(ctx.dir, "repo%d.nvm" % i)
        rc, out, err, to = common.run([ctx.virt, f, "--emit-nvm", "-o", o], timeout=30, cwd=common.REPO)
        if rc != 0 or not os.path.exists(o):
            ev.cls("repo_file_not_compiled")
            continue
        s, d = asm_check(ctx, o)
        ev.case(open(o, "rb").read(), nontrivial=(d == "fwd_and_back_jumps"))
        ev.cls("module_" + (d if s == "ok" else s))
        os.unlink(o)
        if s == "fail":
            if is_known(ctx, src, d, known_sigs):
                ev.cls("module_known_finding")
                continue
            p = common.save_replay(PROP, "repo_" + os.path.basename(f), src)
            print("C11 module failure (%s): %s" % (os.path.basename(f), d))
            common.report_violation(PROP, p)
            nviol += 1

    # ---- (d) label-capacity family (deterministic)
    for (nfun, nif, loops) in ([(1, 10, False), (1, 300, False), (3, 200, False), (30, 40, False), (1, 300, True), (2, 120, True)] if tier == "quick" else
                               [(1, 10, False), (1, 300, False), (1, 600, False), (3, 200, False), (30, 40, False), (100, 12, False), (2, 1100, False),
                                (1, 300, True), (1, 700, True), (3, 260, True), (40, 30, True)]):
        src = big_label_program(nfun, nif, loops)
        o, st_ = compile_nvm(ctx, src, "lbl")
        if not o:
            ev.cls("label_family_" + st_)
            continue
        s, d = asm_check(ctx, o)
        ev.case(src, nontrivial=True)
        ev.cls("label_family_" + s)
        if s == "fail" and not is_known(ctx, src, d, known_sigs):
            p = common.save_replay(PROP, "labels_%d_%d%s.nano" % (nfun, nif, "_loops" if loops else ""), src)
            print("C11 module failure (labels %d x %d): %s" % (nfun, nif, d))
            common.report_violation(PROP, p)
            nviol += 1

    # ---- (d) generated programs
    ncases = 1200 if tier == "quick" else 20000
    state = {"fail": None}

    @hseed(sd * 1000 + 11)
    @settings(max_examples=ncases, database=None, deadline=None, derandomize=False,
              report_multiple_bugs=False, suppress_health_check=list(HealthCheck),
              phases=[Phase.generate, Phase.shrink])
    @given(program())
    def prop(src):
        o, st_ = compile_nvm(ctx, src, "g")
        if not o:
            ev.cls("generated_" + st_)
            ev.case(src, False)
            return
        s, d = asm_check(ctx, o)
        ev.case(src, nontrivial=(d == "fwd_and_back_jumps"))
        ev.cls("generated_" + (d if s == "ok" else s))
        if len(ev.samples) < 6 and d == "fwd_and_back_jumps" and ev.evaluations % 37 == 0:
            ev.sample({"program": src[:1500]})
        if s == "fail":
            if is_known(ctx, src, d, known_sigs):
                ev.cls("generated_known_finding")
                return
            state["fail"] = (src, d)
            raise AssertionError(d)

    try:
        prop()
    except AssertionError:
        src, d = state["fail"]
        if confirm(ctx, src):
            p = common.save_replay(PROP, "module_seed%d.nano" % sd, src)
            print("C11 module failure (generated, shrunk): %s" % d)
            common.report_violation(PROP, p)
            nviol += 1
        else:
            ev.inconclusive += 1
    common.finish(ev, nviol)


def replay_quiet(ctx, path):
    """True if the replay file still fails."""
    if path.endswith(".nano"):
        src = open(path, encoding="utf-8", newline="").read()
        o, st_ = compile_nvm(ctx, src, "known")
        return bool(o) and asm_check(ctx, o)[0] == "fail"
    for line in open(path):
        w = line.split()
        if w and not line.startswith("#"):
            if subprocess.run([ctx.probe] + w, capture_output=True,
                              env=dict(os.environ, ASAN_OPTIONS="detect_leaks=0")).returncode != 0:
                return True
    return False


# signatures of open ledger entries: predicate(src, failure description)
SIGNATURES = {}


def is_known(ctx, src, desc, sigs):
    for s in sigs:
        fn = SIGNATURES.get(s)
        if fn and fn(src, desc):
            return True
    return False
