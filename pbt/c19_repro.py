"""C19 - compilation is a function of the source: outputs are reproducible.

Generated: progen programs (plus a two-file program with an imported module), each compiled under 2-3 configurations
drawn by Hypothesis: working directory (source dir / parent / unrelated), relative vs absolute source path, TMPDIR,
0-50 unrelated environment variables, MALLOC_PERTURB_ in {0, 85, 170, 255}, ASLR on/off (setarch -R), LANG, a long
chain of padding processes (different pids), and the plain vs the ASan build of the compilers (completely different
memory layout and allocator).
Oracle (metamorphic): `nano_virt --emit-nvm` files are byte-identical, `nanoc -S` generated C (<input>.genC) is
byte-identical, and diagnostics are equal after the source path prefix is normalised.
"""
import hashlib
import json
import os
import re
import shutil
import subprocess
import sys

from hypothesis import strategies as st

from . import common, harness, progen, runner
from .common import Evidence
from .harness import CaseFailure

PROP = "C19"
RULE = ("program x pair of configurations; non-trivial = the configurations differ in >= 3 dimensions and the program has "
        ">= 1 string constant and >= 2 functions; distinct by (source hash, configuration pair)")

MODULE_SRC = 'pub fn add(a: int, b: int) -> int {\n    return (+ a b)\n}\nshadow add { assert (== (add 1 2) 3) }\npub fn twice(s: string) -> string {\n    return (+ s s)\n}\nshadow twice { assert (== (twice "a") "aa") }\n'
MAIN_WITH_IMPORT = 'from "m.nano" import add, twice\nfn main() -> int {\n    (println (add 2 3))\n    (println (twice "xy"))\n    return 0\n}\nshadow main { assert true }\n'


@st.composite
def config(draw):
    return {
        "cwd": draw(st.sampled_from(["srcdir", "parent", "unrelated"])),
        "abspath": draw(st.booleans()),
        "tmpdir": draw(st.sampled_from(["a", "b_longer_name_for_tmp", "c"])),
        "nenv": draw(st.sampled_from([0, 1, 7, 50])),
        "perturb": draw(st.sampled_from([None, 0, 85, 170, 255])),
        "aslr_off": draw(st.booleans()),
        "lang": draw(st.sampled_from(["C", "C.UTF-8", "en_US.UTF-8", "POSIX"])),
        "pid_padding": draw(st.sampled_from([0, 3, 40])),
        "build": draw(st.sampled_from(["plain", "plain", "asan"])),
    }


EXT_MODULE_SRC = ('extern fn labs(x: int) -> int\npub fn mag(x: int) -> int {\n    let mut r: int = 0\n    unsafe { set r (labs x) }\n    return r\n}\n'
                  'shadow mag { assert (== (mag -3) 3) }\n')
MAIN_WITH_EXT_IMPORT = 'from "ext.nano" import mag\nfn main() -> int {\n    (println (mag -6))\n    return 0\n}\nshadow main { assert true }\n'


@st.composite
def case(draw, features):
    kind = draw(st.integers(0, 8))
    prog = None if kind in (0, 6) else draw(progen.programs(features=features, size=3))
    cfgs = [draw(config()) for _ in range(draw(st.integers(2, 3)))]
    # kind 0: fixed two-file program; 6: two-file program whose module declares an extern function;
    # 7, 8: the generated program rendered as main file + module (progen.split_program)
    k = {0: "import", 6: "import_extern", 7: "split", 8: "split"}.get(kind, "single")
    if k == "import_extern" and draw(st.booleans()):
        k = "import_transitive_extern"
    return {"prog": prog, "cfgs": cfgs, "kind": k}


class Ctx:
    pass


def make_ctx(widx, tier, opts):
    ctx = Ctx()
    ctx.tools = {"plain": runner.Tools("plain"), "asan": runner.Tools("asan")}
    ctx.dir = os.path.join(common.disk_scratch(), "w%d" % widx)
    os.makedirs(ctx.dir, exist_ok=True)
    ctx.features, _g = harness.features_for(PROP)
    ctx.features = ctx.features - {"long_strings"}
    ctx.have_setarch = shutil.which("setarch") is not None
    ctx.module_path_known = any(f["id"] == "genc-embeds-resolved-module-path" for f in common.open_findings(PROP))
    return ctx


def strategy(ctx):
    return case(ctx.features)


def compile_under(ctx, files, cfg, tag):
    """files: {relative name: text}, main program is 'p.nano'. Returns dict(nvm, genc, diag) or inconclusive marker."""
    base = os.path.join(ctx.dir, tag)
    shutil.rmtree(base, ignore_errors=True)
    # the source files live at the same absolute location for every configuration of a case
    srcdir = os.path.join(ctx.dir, "project", "src")
    shutil.rmtree(os.path.join(ctx.dir, "project"), ignore_errors=True)
    os.makedirs(srcdir)
    os.makedirs(base)
    other = os.path.join(base, "elsewhere")
    os.makedirs(other)
    tmpd = os.path.join(base, "tmp_" + cfg["tmpdir"])
    os.makedirs(tmpd)
    for n, t in files.items():
        runner.write_src(srcdir, n, t)
    cwd = {"srcdir": srcdir, "parent": os.path.dirname(srcdir), "unrelated": other}[cfg["cwd"]]
    src = os.path.join(srcdir, "p.nano")
    arg = src if cfg["abspath"] else os.path.relpath(src, cwd)
    tools = ctx.tools[cfg["build"]]
    env = dict(tools.env)
    env["TMPDIR"] = tmpd
    env["LANG"] = cfg["lang"]
    for i in range(cfg["nenv"]):
        env["C19_PAD_%d" % i] = "v" * (i % 17)
    if cfg["perturb"] is not None:
        env["MALLOC_PERTURB_"] = str(cfg["perturb"])
    for _ in range(cfg["pid_padding"]):
        subprocess.run(["true"])
    prefix = ["setarch", "x86_64", "-R"] if (cfg["aslr_off"] and ctx.have_setarch and cfg["build"] == "plain") else []
    nvm = os.path.join(base, "out.nvm")
    rc1, o1, e1, to1 = common.run(prefix + [tools.virt, arg, "--emit-nvm", "-o", nvm], timeout=60, cwd=cwd, env=env)
    exe = os.path.join(base, "out.bin")
    rc2, o2, e2, to2 = common.run(prefix + [tools.nanoc, arg, "-o", exe, "-S"], timeout=180, cwd=cwd, env=env)
    if to1 or to2:
        return None
    genc_path = src + ".genC"
    norm = lambda b: b.replace(srcdir.encode(), b"<SRC>").replace(os.path.relpath(srcdir, cwd).encode() if cwd != srcdir else b"\x00\x00", b"<SRC>").replace(arg.encode(), b"<SRC>/p.nano")
    norm2 = lambda b: re.sub(rb"(/[^\s:]*)?p\.nano", b"<SRC>/p.nano", norm(b))
    res = {"nvm": open(nvm, "rb").read() if rc1 == 0 and os.path.exists(nvm) else None,
           "genc": open(genc_path, "rb").read() if os.path.exists(genc_path) else None,
           "diag_virt": norm2(e1), "diag_nanoc": norm2(strip_cc(e2)), "rc": (rc1, rc2)}
    shutil.rmtree(base, ignore_errors=True)
    return res


def strip_cc(err):
    # the C compiler's own messages contain temp file names by design; keep nanoc's own diagnostics only
    return b"\n".join(l for l in err.split(b"\n") if b"/nanoc_" not in l and not l.startswith((b" ", b"cc1", b"In file")))


def differing_dims(a, b):
    return sum(1 for k in a if a[k] != b[k])


def files_of(c):
    kind = c.get("kind", "import" if c["prog"] is None else "single")
    if kind == "import_extern":
        return {"p.nano": MAIN_WITH_EXT_IMPORT, "ext.nano": EXT_MODULE_SRC}
    if kind == "import_transitive_extern":
        return {"p.nano": 'from "mid.nano" import mag2\nfn main() -> int {\n    (println (mag2 -6))\n    return 0\n}\nshadow main { assert true }\n',
                "mid.nano": 'from "ext.nano" import mag\npub fn mag2(x: int) -> int {\n    return (* 2 (mag x))\n}\nshadow mag2 { assert (== (mag2 -3) 6) }\n',
                "ext.nano": EXT_MODULE_SRC}
    if c["prog"] is None:
        return {"p.nano": MAIN_WITH_IMPORT, "m.nano": MODULE_SRC}
    if kind == "split":
        sp = progen.split_program(c["prog"], 3)
        if sp is not None:
            return {"p.nano": sp[0], "m.nano": sp[1]}
    return {"p.nano": progen.print_program(c["prog"])}


def compare(ctx, files, cfgs, tag="c", skip=()):
    outs = []
    for i, cfg in enumerate(cfgs):
        r = compile_under(ctx, files, cfg, "%s%d" % (tag, i))
        if r is None:
            return "inconclusive", ""
        outs.append(r)
    a = outs[0]
    for i, b in enumerate(outs[1:], 1):
        for k, label in (("nvm", "bytecode file"), ("genc", "generated C"), ("rc", "exit statuses"), ("diag_virt", "nano_virt diagnostics"), ("diag_nanoc", "nanoc diagnostics")):
            if k in skip:
                continue
            if a[k] != b[k]:
                det = "%s differs between configuration 0 and %d" % (label, i)
                if k in ("nvm", "genc") and a[k] is not None and b[k] is not None:
                    j = next((x for x in range(min(len(a[k]), len(b[k]))) if a[k][x] != b[k][x]), min(len(a[k]), len(b[k])))
                    det += " at byte %d: %r vs %r" % (j, a[k][max(0, j - 30):j + 30], b[k][max(0, j - 30):j + 30])
                elif k.startswith("diag"):
                    det += ": %r vs %r" % (a[k][-200:], b[k][-200:])
                return "differ", det
    if a["nvm"] is None and a["genc"] is None:
        return "not_accepted", ""
    return "same", ""


def run_case(ctx, c, ev):
    files = files_of(c)
    skip = ()
    if len(files) > 1 and ctx.module_path_known:
        # known finding: the generated C embeds the module path as resolved from the invocation. The working directory and
        # the path form still vary; only the generated C is left out of the comparison for programs with imports (the
        # bytecode file and the diagnostics are compared as for every other program)
        varied = any(x["cwd"] != c["cfgs"][0]["cwd"] or x["abspath"] != c["cfgs"][0]["abspath"] for x in c["cfgs"][1:])
        if varied:
            skip = ("genc",)
            ev.exclude("generated_C_comparison_for_imports_under_path_variation")
    v, detail = compare(ctx, files, c["cfgs"], skip=skip)
    src = files["p.nano"]
    dims = max(differing_dims(c["cfgs"][0], x) for x in c["cfgs"][1:])
    nf = len(c["prog"]["funcs"]) if c["prog"] else 3
    nontrivial = v == "same" and dims >= 3 and '"' in src and nf >= 2
    ev.case(src + json.dumps(c["cfgs"], sort_keys=True), nontrivial)
    ev.cls("verdict_" + v)
    ev.cls("multi_module" if len(files) > 1 else "single_file")
    ev.cls("kind_" + c.get("kind", "?"))
    if any(x["build"] == "asan" for x in c["cfgs"]) and any(x["build"] == "plain" for x in c["cfgs"]):
        ev.cls("plain_vs_asan_compiler")
    if v == "inconclusive":
        ev.inconclusive += 1
    if nontrivial and len(ev.samples) < 2 and ev.evaluations % 5 == 1:
        ev.sample({"configurations": c["cfgs"], "source_head": src[:600]})
    if v == "differ":
        raise CaseFailure(detail, {})


def describe_failure(ctx, c, cf):
    files = files_of(c)
    varied = any(x["cwd"] != c["cfgs"][0]["cwd"] or x["abspath"] != c["cfgs"][0]["abspath"] for x in c["cfgs"][1:])
    skip = ["genc"] if (len(files) > 1 and ctx.module_path_known and varied) else []
    return {"src": json.dumps({"files": files, "cfgs": c["cfgs"], "skip": skip}), "detail": cf.detail, "payload": {}, "sigs": []}


def replay(path):
    ctx = make_ctx(0, "quick", {})
    ctx.tools["plain"].prewarm(ctx.dir)
    d = json.load(open(path))
    v, detail = compare(ctx, d["files"], d["cfgs"], "replay", skip=tuple(d.get("skip", ())))
    print("replay:", v, detail[:600])
    return 1 if v == "differ" else 0


def main(tier):
    ev = Evidence(PROP, tier, "exploration", RULE)
    ctx = make_ctx(99, tier, {})
    for t in ctx.tools.values():
        t.prewarm(ctx.dir)
    nviol = 0
    for f in common.open_findings(PROP):
        d = json.load(open(os.path.join(common.VERIF, f["replay"][PROP])))
        v, detail = compare(ctx, d["files"], d["cfgs"], "known")
        if v == "differ":
            common.report_known(PROP, "%s [%s]" % (f["what"], f["id"]))
            ev.known.append(f["id"])
    for f in common.fixed_findings(PROP):
        rp = os.path.join(common.VERIF, f["replay"][PROP])
        d = json.load(open(rp))
        v, detail = compare(ctx, d["files"], d["cfgs"], "fixed", skip=tuple(d.get("skip", ())))
        ev.cls("fixed_regression_replayed")
        if v == "differ":
            print("C19: fixed finding %s is back: %s" % (f["id"], detail[:300]))
            common.report_violation(PROP, rp)
            nviol += 1
    total = 160 if tier == "quick" else 4000
    results = harness.run_workers("pbt.c19_repro", tier, total)
    for r in results:
        ev.merge(r["evidence"])
        if r["error"]:
            print("C19: worker %d harness error (not a verdict):\n%s" % (r["widx"], r["error"]), file=sys.stderr)
            ev.cls("worker_errors")
        fl = r["failure"]
        if fl:
            d = json.loads(fl["src"])
            again = [compare(ctx, d["files"], d["cfgs"], "confirm", skip=tuple(d.get("skip", ())))[0] for _ in range(3)]
            if not all(a == "differ" for a in again):
                if os.environ.get("VERIF_DEBUG"):
                    print("C19 debug: unconfirmed: %s\n%s" % (fl["detail"][:600], json.dumps(d["cfgs"])[:600]), file=sys.stderr)
                ev.inconclusive += 1
                ev.cls("unconfirmed_failure")
                continue
            p = common.save_replay(PROP, "repro_seed%d_w%d.json" % (common.seed(), r["widx"]), json.dumps(d, indent=1))
            print("C19: %s" % fl["detail"][:700])
            common.report_violation(PROP, p)
            nviol += 1
    ev.assumptions = ["no MSan-instrumented toolchain is available: dependence on uninitialised memory is attacked through MALLOC_PERTURB_, ASLR and the ASan build's allocator only",
                      "messages of the C compiler itself (which name nanoc's temp file) are not part of the compared diagnostics"]
    if ev.classes.get("worker_errors"):
        ev.write()
        sys.exit(2)
    common.finish(ev, nviol)
