"""C08 - out-of-range operations stop the program and never yield a value.

Generated: array length n in [0, 40], index from a boundary set around n, 2^31, 2^32, 2^63 (plus in-range controls),
element kind, operation (at / array_set / array_pop on empty), how the index reaches the access at run time (function
result, loop variable arithmetic, global), and where the access sits (statement, operand of an expression, inside a
callee, k-th iteration of a loop). Field cases: tuple index >= arity, undeclared struct field, field of another union
variant inside a match arm.
Oracle: out of range => exit status != 0 and nothing printed after the access ("AFTER" absent); in range => exit 0
and "AFTER <model value>". Engines: native binary, nano_virt --run, nano_vm <file>; compile-time evaluator (access in
a shadow block: nanoc must not produce a binary and must not print AFTER). ASan/UBSan builds of the VM (quick: a
sample, thorough: all) add "no sanitizer report".
"""
import json
import os
import sys

from hypothesis import strategies as st

from . import common, harness, runner
from .common import Evidence
from .harness import CaseFailure

PROP = "C08"
RULE = ("case = (n, index, element kind, operation, index delivery, placement); non-trivial = out-of-range index that is "
        "not -1 or n (wrap-around / truncation candidates) or a nested placement (operand, callee, loop); in-range "
        "controls are counted separately; distinct by (n, index, kind, op, delivery, placement)")

KINDS = {
    "int": ("int", lambda i: str(10 + i), lambda i: str(10 + i), "777"),
    "bool": ("bool", lambda i: "true" if i % 2 else "false", lambda i: "true" if i % 2 else "false", "true"),
    "string": ("string", lambda i: '"s%d"' % i, lambda i: "s%d" % i, '"new"'),
    "float": ("float", lambda i: "%d.5" % i, None, "9.5"),
}


def boundary_indices(n):
    return sorted(set([-(2 ** 63), -(2 ** 32) - 1, -(2 ** 32), -(2 ** 31) - 1, -n - 1, -2, -1, n, n + 1, 2 * n + 1, 2 ** 31 - 1, 2 ** 31,
                       2 ** 32 - 1, 2 ** 32, 2 ** 32 + (n // 2), 2 ** 32 + n, 2 ** 63 - 1]))


@st.composite
def case(draw):
    n = draw(st.sampled_from([0, 1, 2, 3, 5, 8, 17, 40]))
    inrange = n > 0 and draw(st.integers(0, 3)) == 0
    if inrange:
        idx = draw(st.integers(0, n - 1))
    else:
        idx = draw(st.sampled_from(boundary_indices(n)))
    kind = draw(st.sampled_from(["int", "int", "bool", "string", "float"]))
    op = draw(st.sampled_from(["at", "at", "set"]))
    delivery = draw(st.sampled_from(["function", "loop", "global", "arith"]))
    place = draw(st.sampled_from(["statement", "operand", "callee", "loop_k", "global_init"]))
    return {"n": n, "idx": idx, "kind": kind, "op": op, "delivery": delivery, "place": place, "inrange": 0 <= idx < n}


def build(c, shadow=False):
    """Returns (source, expected AFTER line or None)."""
    n, idx, kind = c["n"], c["idx"], c["kind"]
    tname, lit, shown, newv = KINDS[kind]
    elems = ", ".join(lit(i) for i in range(n))
    L = []
    if c["delivery"] == "global":
        L.append("let GIDX: int = %d" % idx)
    L.append("fn getidx() -> int {\n    return %d\n}\nshadow getidx { assert true }" % idx)
    if c["delivery"] == "function":
        ie = "(getidx)"
    elif c["delivery"] == "global":
        ie = "GIDX"
    elif c["delivery"] == "arith":
        ie = "(+ (- (getidx) 1) 1)" if idx > -(2 ** 63) else "(getidx)"
    else:
        ie = "ix"
    show = lambda e: ("(println (== %s %s))" % (e, lit(idx if c["inrange"] else 0))) if kind == "float" else "(println %s)" % e
    if c["place"] == "global_init" and not shadow:
        # the access is the initialiser of a top-level let: it runs before main (or at compile time for nanoc), and a
        # fault there must stop the program as well
        gie = "(getidx)" if c["delivery"] == "loop" else ie
        L.append("let GA: array<%s> = [%s]" % (tname, elems))
        L.append("let GV: %s = (at GA %s)" % (tname, gie))
        L.append("fn main() -> int {\n    (print \"AFTER \")\n    %s\n    return 0\n}\nshadow main { assert true }" % show("GV"))
        expect = ("AFTER " + ("true" if kind == "float" else shown(idx))) if c["inrange"] else None
        return "\n".join(L) + "\n", expect
    access = []
    if c["op"] == "at":
        if c["place"] == "operand" and kind == "int":
            access = ["let v: int = (+ 1 (at a %s))" % ie, "(print \"AFTER \")", "(println v)"]
            expect = "AFTER %d" % (1 + 10 + idx) if c["inrange"] else None
        else:
            access = ["let v: %s = (at a %s)" % (tname, ie), "(print \"AFTER \")", show("v")]
            expect = ("AFTER " + ("true" if kind == "float" else shown(idx))) if c["inrange"] else None
    else:
        access = ["(array_set a %s %s)" % (ie, newv), "(print \"AFTER \")", "(println (array_length a))"]
        expect = "AFTER %d" % n if c["inrange"] else None
    body = ["let mut a: array<%s> = [%s]" % (tname, elems), '(println "BEFORE")']
    if c["delivery"] == "loop":
        pre = ["let mut ix: int = 0", "for q in (range 0 3) {", "    set ix (getidx)", "}"]
        body += pre
    if c["place"] == "loop_k":
        body += ["let mut k: int = 0", "while (< k 3) {", "    set k (+ k 1)", "    if (== k 2) {"] + ["        " + x for x in access] + \
                ["    } else {", '        (print "")', "    }", "}"]
    else:
        body += access
    if c["place"] == "callee":
        L.append("fn work() -> int {\n" + "\n".join("    " + x for x in body) + "\n    return 0\n}")
        if shadow:
            L.append("shadow work {\n    assert (== (work) 0)\n}")
        else:
            L.append("shadow work { assert true }")
        L.append("fn main() -> int {\n    return (work)\n}\nshadow main { assert true }")
    else:
        if shadow:
            L.append("fn work() -> int {\n    return 0\n}\nshadow work {\n" + "\n".join("    " + x for x in body) + "\n    assert (== (work) 0)\n}")
            L.append("fn main() -> int {\n    return 0\n}\nshadow main { assert true }")
        else:
            L.append("fn main() -> int {\n" + "\n".join("    " + x for x in body) + "\n    return 0\n}\nshadow main { assert true }")
    return "\n".join(L) + "\n", expect


FIELD_CASES = {
    "tuple_index_past_arity": 'fn main() -> int {\n    let t: (int, int) = (1, 2)\n    (println "BEFORE")\n    let v: int = t.2\n    (print "AFTER ")\n    (println v)\n    return 0\n}\nshadow main { assert true }\n',
    "tuple_index_far": 'fn main() -> int {\n    let t: (int, int) = (1, 2)\n    (println "BEFORE")\n    let v: int = t.70000\n    (print "AFTER ")\n    (println v)\n    return 0\n}\nshadow main { assert true }\n',
    "undeclared_struct_field": 'struct P { x: int, y: int }\nfn main() -> int {\n    let p: P = P { x: 1, y: 2 }\n    (println "BEFORE")\n    let v: int = p.z\n    (print "AFTER ")\n    (println v)\n    return 0\n}\nshadow main { assert true }\n',
    "field_of_other_variant": 'union R { Ok { v: int }, Err { code: int, msg: string } }\nfn main() -> int {\n    let r: R = R.Ok { v: 3 }\n    (println "BEFORE")\n    match r {\n        Ok(o) => {\n            (print "AFTER ")\n            (println o.msg)\n        }\n        Err(e) => {\n            (println e.msg)\n        }\n    }\n    return 0\n}\nshadow main { assert true }\n',
    "field_of_other_variant_index1": 'union R { Ok { v: int }, Err { code: int, msg: string } }\nfn main() -> int {\n    let r: R = R.Ok { v: 3 }\n    (println "BEFORE")\n    match r {\n        Ok(o) => {\n            let c: int = o.code\n            (print "AFTER ")\n            (println c)\n        }\n        Err(e) => {\n            (println e.msg)\n        }\n    }\n    return 0\n}\nshadow main { assert true }\n',
}

POP_EMPTY = 'fn main() -> int {\n    let mut a: array<int> = [1]\n    (println "BEFORE")\n    let x: int = (array_pop a)\n    let y: int = (array_pop a)\n    (print "AFTER ")\n    (println (+ x y))\n    return 0\n}\nshadow main { assert true }\n'


class Ctx:
    pass


def make_ctx(widx, tier, opts):
    ctx = Ctx()
    ctx.tools = runner.Tools("plain")
    ctx.asan = runner.Tools("asan") if opts.get("asan") else None
    ctx.dir = os.path.join(common.scratch(), "w%d" % widx)
    os.makedirs(ctx.dir, exist_ok=True)
    ctx.widx = widx
    ctx.tier = tier
    ctx.evaluator = opts.get("evaluator", False)
    return ctx


def strategy(ctx):
    return case()


def observe(ctx, src, expect, engines, name="p.nano"):
    """Returns list of (engine, problem) and the per-engine results."""
    p = runner.write_src(ctx.dir, name, src)
    bad = []
    res = {}
    for e in engines:
        if e == "native":
            r = ctx.tools.run_native(p, ctx.dir)
        elif e == "vm":
            r = ctx.tools.run_vm(p, ctx.dir)
        elif e == "vm_asan":
            r = ctx.asan.run_vm(p, ctx.dir)
        elif e == "nano_vm":
            nvm = p[:-5] + ".nvm"
            rc, o, er, to = ctx.tools.emit_nvm(p, nvm, ctx.dir)
            if rc != 0:
                r = runner.Result("rejected", rc, o, er, "emit failed", "compile")
            else:
                x = common.run([ctx.tools.vm, nvm], timeout=20, cwd=ctx.dir, env=ctx.tools.env)
                r = runner.classify_vm(x[0], x[1], x[2].replace(b"Runtime error:", b"runtime error:"), x[3])
        res[e] = r
        if r.cls == "inconclusive":
            bad.append((e, "inconclusive"))
            continue
        if r.detail == "sanitizer report":
            bad.append((e, "sanitizer report: " + r.err[-300:].decode("utf-8", "replace")))
            continue
        if r.cls == "rejected" or (r.stage == "compile" and r.cls == "internal_failure"):
            if expect is not None:
                bad.append((e, "in-range control program was refused / failed to compile"))
            # refused at compile time: nothing ran, fine for an out-of-range case (field cases); array cases must compile
            elif b"BEFORE" in src.encode() and e != "native" and False:
                pass
            continue
        after = [l for l in r.out.decode("utf-8", "replace").split("\n") if l.startswith("AFTER")]
        if expect is None:
            if after:
                bad.append((e, "the run continued past the access and printed %r" % after[0]))
            elif r.rc == 0:
                bad.append((e, "exit status 0 after an out-of-range access"))
        else:
            if r.rc != 0 or after != [expect]:
                bad.append((e, "in-range control: expected %r exit 0, got %r exit %s" % (expect, after, r.rc)))
    return bad, res


def observe_evaluator(ctx, src, expect, name="sh.nano"):
    p = runner.write_src(ctx.dir, name, src)
    exe = p[:-5] + ".bin"
    if os.path.exists(exe):
        os.unlink(exe)
    rc, out, err, to = common.run([ctx.tools.nanoc, p, "-o", exe], timeout=120, cwd=ctx.dir, env=ctx.tools.env)
    if to:
        return [("evaluator", "inconclusive")]
    after = [l for l in (out + err).decode("utf-8", "replace").split("\n") if "AFTER" in l]
    made = os.path.exists(exe)
    if made:
        os.unlink(exe)
    if expect is None:
        if after:
            return [("evaluator", "compile-time evaluation continued past the access: %r" % after[0][:80])]
        if rc == 0 or made:
            return [("evaluator", "nanoc exit %d / binary written although a shadow block performed an out-of-range access" % rc)]
    else:
        if rc != 0:
            return [("evaluator", "in-range control refused (exit %d): %s" % (rc, (out + err)[-200:].decode("utf-8", "replace")))]
    return []


def engines_for(ctx, c):
    e = ["native", "vm"]
    if ctx.asan:
        e.append("vm_asan")
    if (c["n"] + abs(c["idx"])) % 5 == 0:
        e.append("nano_vm")
    return e


def run_case(ctx, c, ev):
    src, expect = build(c)
    bad, res = observe(ctx, src, expect, engines_for(ctx, c))
    if ctx.evaluator and c["place"] in ("statement", "callee") and c["delivery"] != "loop":
        ssrc, sexpect = build(c, shadow=True)
        bad += observe_evaluator(ctx, ssrc, sexpect)
        ev.cls("evaluator_cases")
    key = json.dumps(c, sort_keys=True)
    wrap = (not c["inrange"]) and c["idx"] not in (-1, c["n"])
    nested = c["place"] != "statement"
    real = [b for b in bad if b[1] != "inconclusive"]
    ev.case(key, (wrap or nested) and not real)
    ev.cls("inrange_control" if c["inrange"] else "out_of_range")
    ev.cls("op_" + c["op"])
    ev.cls("place_" + c["place"])
    ev.cls("kind_" + c["kind"])
    if wrap:
        ev.cls("wraparound_candidate")
    for b in bad:
        if b[1] == "inconclusive":
            ev.inconclusive += 1
    if not real and wrap and len(ev.samples) < 3 and ev.evaluations % 13 == 2:
        ev.sample({"case": c, "source": src})
    if real:
        raise CaseFailure("%s: %s" % real[0], {"case": c})


def describe_failure(ctx, c, cf):
    src, expect = build(c)
    return {"src": json.dumps({"case": c, "source": src, "expect_after": expect}), "detail": cf.detail, "payload": {"case": c}, "sigs": []}


def replay(path):
    ctx = make_ctx(0, "quick", {"asan": True, "evaluator": True})
    ctx.tools.prewarm(ctx.dir)
    d = json.load(open(path))
    src = d["source"]
    expect = d.get("expect_after")
    engines = d.get("engines") or ["native", "vm", "vm_asan", "nano_vm"]
    bad = []
    if "evaluator" in engines:
        bad += observe_evaluator(ctx, src, expect)
        engines = [e for e in engines if e != "evaluator"]
    b2, res = observe(ctx, src, expect, engines, "replay.nano")
    bad += b2
    for b in bad:
        print("replay: %s: %s" % b)
    if not bad:
        print("replay: holds on all engines")
    return 1 if [b for b in bad if b[1] != "inconclusive"] else 0


def still_fails(ctx, path):
    d = json.load(open(path))
    engines = d.get("engines") or ["native", "vm"]
    bad = []
    if "evaluator" in engines:
        bad += observe_evaluator(ctx, d["source"], d.get("expect_after"))
    b2, _ = observe(ctx, d["source"], d.get("expect_after"), [e for e in engines if e != "evaluator"], "known.nano")
    return [b for b in bad + b2 if b[1] != "inconclusive"]


def main(tier):
    ev = Evidence(PROP, tier, "exploration", RULE)
    open_ids = {f["id"] for f in common.open_findings(PROP)}
    eval_on = "evaluator-continues-after-error" not in open_ids
    ctx = make_ctx(99, tier, {"asan": True, "evaluator": True})
    ctx.tools.prewarm(ctx.dir)
    nviol = 0
    for f in common.open_findings(PROP):
        rp = os.path.join(common.VERIF, f["replay"][PROP])
        if still_fails(ctx, rp):
            common.report_known(PROP, "%s [%s]" % (f["what"], f["id"]))
            ev.known.append(f["id"])
        else:
            print("note: known finding %s no longer reproduces" % f["id"])
    for f in common.fixed_findings(PROP):
        rp = os.path.join(common.VERIF, f["replay"][PROP])
        ev.cls("fixed_regression_replayed")
        b = still_fails(ctx, rp)
        if b:
            print("C08: fixed finding %s is back: %s: %s" % ((f["id"],) + b[0]))
            common.report_violation(PROP, rp)
            nviol += 1
    # field cases
    for name, src in FIELD_CASES.items():
        if name.startswith("field_of_other_variant") and "union-other-variant-field" in open_ids:
            ev.exclude("field_of_other_variant(known finding)")
            continue
        bad, res = observe(ctx, src, None, ["native", "vm", "vm_asan"], name + ".nano")
        ev.case(name, True)
        ev.cls("field_case")
        real = [b for b in bad if b[1] != "inconclusive"]
        for e, r in res.items():
            ev.cls("field_%s_%s" % (e, "refused_at_compile_time" if (r.cls == "rejected" or r.stage == "compile") else "stopped_at_run_time" if not real else "violated"))
        if real:
            p = common.save_replay(PROP, "field_%s.json" % name, json.dumps({"source": src, "expect_after": None, "engines": ["native", "vm", "vm_asan"]}, indent=1))
            print("C08: %s: %s: %s" % ((name,) + real[0]))
            common.report_violation(PROP, p)
            nviol += 1
    if "pop-empty-returns-value" not in open_ids:
        bad, res = observe(ctx, POP_EMPTY, None, ["native", "vm"], "pop.nano")
        real = [b for b in bad if b[1] != "inconclusive"]
        ev.case("pop_empty", True)
        if real:
            p = common.save_replay(PROP, "pop_empty.json", json.dumps({"source": POP_EMPTY, "expect_after": None, "engines": ["native", "vm"]}, indent=1))
            print("C08: array_pop on an empty array: %s: %s" % real[0])
            common.report_violation(PROP, p)
            nviol += 1
    total = 480 if tier == "quick" else 12000
    results = harness.run_workers("pbt.c08_bounds", tier, total, opts={"asan": True, "evaluator": eval_on})
    for r in results:
        ev.merge(r["evidence"])
        if r["error"]:
            print("C08: worker %d harness error (not a verdict):\n%s" % (r["widx"], r["error"]), file=sys.stderr)
            ev.cls("worker_errors")
        fl = r["failure"]
        if fl:
            d = json.loads(fl["src"])
            cctx = make_ctx(98, tier, {"asan": True, "evaluator": eval_on})
            n = 0
            for _ in range(3):
                b, _res = observe(cctx, d["source"], d["expect_after"], ["native", "vm", "vm_asan", "nano_vm"], "confirm.nano")
                if eval_on and d["case"]["place"] in ("statement", "callee") and d["case"]["delivery"] != "loop":
                    ssrc, sexp = build(d["case"], shadow=True)
                    b += observe_evaluator(cctx, ssrc, sexp)
                if [x for x in b if x[1] != "inconclusive"]:
                    n += 1
            if n < 3:
                ev.inconclusive += 1
                continue
            d["engines"] = ["native", "vm", "vm_asan", "nano_vm"]
            p = common.save_replay(PROP, "bounds_seed%d_w%d.json" % (common.seed(), r["widx"]), json.dumps(d, indent=1))
            print("C08: %s\n  case: %s" % (fl["detail"], json.dumps(d["case"])))
            common.report_violation(PROP, p)
            nviol += 1
    ev.extra["evaluator_engine_judged"] = eval_on
    if ev.classes.get("worker_errors"):
        ev.write()
        sys.exit(2)
    common.finish(ev, nviol)
