"""C20 - native programs and their C runtime are memory-safe.

(a) progen programs (strings built in loops, arrays of strings passed through calls, structs/unions/tuples holding
    strings and arrays, early return / break / continue out of nested scopes, recursion, function values) compiled by
    nanoc with the C compiler switched to clang + AddressSanitizer + UBSan for BOTH the runtime sources and the
    generated translation unit.  Oracle: the sanitizers print nothing and the run ends normally or in a documented
    fault.  Output correctness belongs to C01/C02 and is not asserted here.
(b) rapidcheck operation histories (probes/rt_probe.cc, ASan/UBSan) over dyn_array for every element kind (int, u8,
    float, bool, string, nested array) with new / push / pop / get / set / remove_at / clear / reserve / clone against
    a std::vector model, and over gc_alloc / gc_alloc_opaque / retain / release / collect against a reference-count
    model (ref counts, live-object statistics, finalizer calls, object contents).
"""
import json
import os
import subprocess
import sys

from . import common, harness, progen, refeval, runner, signatures
from .common import Evidence
from .harness import CaseFailure

PROP = "C20"
RULE = ("(a) progen program run natively under ASan+UBSan; non-trivial = the reference run leaves a block that owns a heap "
        "value through return / break / continue, or executes >= 5 loop iterations with string/array building; distinct by "
        "source hash. (b) operation histories: non-trivial = >= 20 commands and the array crossed a growth boundary (dyn), "
        ">= 20 commands (gc); distinct by history")


class Ctx:
    pass


def make_ctx(widx, tier, opts):
    ctx = Ctx()
    ctx.tools = runner.Tools("plain", native_san=True)
    ctx.tools.env["NANOCC_EXTRA"] += " -Wno-error=integer-overflow"
    ctx.dir = os.path.join(common.scratch(), "w%d" % widx)
    os.makedirs(ctx.dir, exist_ok=True)
    ctx.features, ctx.gated = harness.features_for(PROP)
    ctx.size = 3
    return ctx


from hypothesis import strategies as st


@st.composite
def fmt_case(draw):
    """Parameters of a program that formats composite values with to_string (the generated string builder grows in
    steps of 256, 512, ... bytes): element counts and widths are drawn so that the text crosses and lands on those sizes."""
    return {"n_int": draw(st.integers(0, 420)), "mul": draw(st.sampled_from([1, 7, 37, 1001, 123457, -3])),
            "mod": draw(st.sampled_from([10, 100, 1000, 1000000007])),
            "n_str": draw(st.integers(0, 70)), "slen": draw(st.integers(0, 40)),
            "n_float": draw(st.integers(0, 120)), "n_bool": draw(st.integers(0, 150)),
            "field_len": draw(st.sampled_from([0, 1, 100, 200, 220, 230, 240, 250, 255, 256, 257, 300, 500, 600, 1000])),
            "union_len": draw(st.integers(0, 600))}


def fmt_source(c):
    L = ["struct C20P { a: int, s: string, f: float, b: bool }", "union C20U { A { x: int }, B { s: string } }",
         "fn rep(n: int, u: string) -> string {", "    let mut r: string = \"\"", "    let mut i: int = 0", "    while (< i n) {",
         "        set r (+ r u)", "        set i (+ i 1)", "    }", "    return r", "}", "shadow rep { assert (== (rep 2 \"a\") \"aa\") }",
         "fn main() -> int {", "    let mut ai: array<int> = []", "    let mut i: int = 0",
         "    while (< i %d) {" % c["n_int"], "        set ai (array_push ai (%% (* i %d) %d))" % (c["mul"], c["mod"]), "        set i (+ i 1)", "    }",
         "    (println (str_length (to_string ai)))",
         "    let mut sa: array<string> = []", "    set i 0", "    while (< i %d) {" % c["n_str"],
         "        set sa (array_push sa (rep (%% (+ i %d) 41) \"x\"))" % c["slen"], "        set i (+ i 1)", "    }",
         "    (println (str_length (to_string sa)))",
         "    let mut fa: array<float> = []", "    set i 0", "    while (< i %d) {" % c["n_float"],
         "        set fa (array_push fa (* (cast_float i) 1.25))", "        set i (+ i 1)", "    }",
         "    (println (str_length (to_string fa)))",
         "    let mut ba: array<bool> = []", "    set i 0", "    while (< i %d) {" % c["n_bool"],
         "        set ba (array_push ba (== (% i 3) 0))", "        set i (+ i 1)", "    }",
         "    (println (str_length (to_string ba)))",
         "    let p: C20P = C20P { a: -5, s: (rep %d \"q\"), f: 2.5, b: true }" % c["field_len"],
         "    (println (str_length (to_string p)))",
         "    let u: C20U = C20U.B { s: (rep %d \"w\") }" % c["union_len"],
         "    (println (str_length (to_string u)))",
         "    return 0", "}", "shadow main { assert true }", ""]
    return "\n".join(L)


@st.composite
def list_case(draw):
    """Generic List<T> over structs of 1-6 fields (8-48 bytes), List<int>, List<string>: pushes across every growth
    step, reads, overwrites."""
    return {"fields": draw(st.integers(1, 6)), "n": draw(st.sampled_from([0, 1, 3, 4, 5, 6, 8, 9, 16, 17, 33, 70])),
            "strfield": draw(st.booleans()), "n_int": draw(st.sampled_from([0, 4, 5, 9, 40])), "n_str": draw(st.sampled_from([0, 4, 5, 17]))}


def list_source(c):
    nf = c["fields"]
    names = ["f%d" % i for i in range(nf)]
    types = ["int"] * nf
    if c["strfield"]:
        types[-1] = "string"
    lit = lambda i: ", ".join("%s: %s" % (n, ('(+ "s" (int_to_string i))' if t == "string" else "(* i %d)" % (k + 1))) for k, (n, t) in enumerate(zip(names, types)))
    L = ["struct C20R { %s }" % ", ".join("%s: %s" % (n, t) for n, t in zip(names, types)),
         "fn fill(n: int) -> int {", "    let rs: List<C20R> = (list_C20R_new)", "    let mut i: int = 0", "    while (< i n) {",
         "        (list_C20R_push rs C20R { %s })" % lit("i"), "        set i (+ i 1)", "    }",
         "    if (> n 0) {", "        let last: C20R = (list_C20R_get rs (- (list_C20R_length rs) 1))", "        (println last.f0)",
         "        let first: C20R = (list_C20R_get rs 0)", "        (println first.f0)", "    }",
         "    return (list_C20R_length rs)", "}", "shadow fill { assert (== (fill 2) 2) }",
         "fn main() -> int {", "    (println (fill %d))" % c["n"],
         "    let li: List<int> = (list_int_new)", "    let mut i: int = 0", "    while (< i %d) {" % c["n_int"], "        (list_int_push li (* i 3))", "        set i (+ i 1)", "    }",
         "    (println (list_int_length li))",
         "    let ls: List<string> = (list_string_new)", "    set i 0", "    while (< i %d) {" % c["n_str"], '        (list_string_push ls (+ "e" (int_to_string i)))', "        set i (+ i 1)", "    }",
         "    (println (list_string_length ls))", "    return 0", "}", "shadow main { assert true }", ""]
    return "\n".join(L)


def strategy(ctx):
    return st.one_of(list_case().map(lambda c: ("list", c)),progen.programs(features=ctx.features, size=ctx.size).map(lambda p: ("prog", p)),
                     progen.programs(features=ctx.features, size=ctx.size).map(lambda p: ("prog", p)),
                     fmt_case().map(lambda c: ("fmt", c)))


def run_san(ctx, src, name="p.nano"):
    p = runner.write_src(ctx.dir, name, src)
    r = ctx.tools.run_native(p, ctx.dir, timeout=60)
    if r.cls == "inconclusive":
        return "inconclusive", "", r
    if r.detail.startswith("sanitizer report"):
        import re
        m = re.search(rb"(ERROR: AddressSanitizer: [^\n]*|[^\n]*runtime error:[^\n]*)", r.err)
        return "violation", (m.group(1).decode("utf-8", "replace")[:300] if m else "sanitizer report") + (" [while compiling]" if r.stage == "compile" else ""), r
    if r.cls == "internal_failure":
        if r.stage == "compile":
            return "stuck", r.detail, r       # C04 matter
        return "violation", "run ended with %s" % r.detail, r
    if r.cls == "rejected":
        return "rejected", "", r
    return "ok", "", r


def run_case(ctx, case, ev):
    kind, prog = case
    if kind == "list":
        src = list_source(prog)
        v, detail, r = run_san(ctx, src, "l.nano")
        ev.case(src, v == "ok" and prog["n"] > 4)
        ev.cls("list_verdict_" + v)
        ev.cls("list_struct_bytes_%d" % (8 * prog["fields"]))
        if v == "inconclusive":
            ev.inconclusive += 1
        if v == "violation":
            raise CaseFailure(detail, {"result": r.brief()})
        return
    if kind == "fmt":
        src = fmt_source(prog)
        v, detail, r = run_san(ctx, src, "f.nano")
        lens = [int(x) for x in r.out.split() if x.strip().lstrip(b"-").isdigit()] if v == "ok" else []
        ev.case(src, v == "ok" and any(n >= 256 for n in lens))
        ev.cls("fmt_verdict_" + v)
        for n in lens:
            ev.cls("fmt_text_ge_1024" if n >= 1024 else ("fmt_text_ge_256" if n >= 256 else "fmt_text_small"))
        if v == "inconclusive":
            ev.inconclusive += 1
        if v == "violation":
            raise CaseFailure(detail, {"result": r.brief()})
        return
    ref = refeval.run(prog)
    src = progen.print_program(prog)
    for k, v in prog["excluded"].items():
        ev.exclude(k, v)
    if ref.kind != "normal":
        ev.cls("discarded_ref_" + ref.kind)
        return
    v, detail, r = run_san(ctx, src)
    f = prog["features"]
    exits = sum(f.get(k, 0) for k in ("early_return", "break_in_for", "break_in_while", "continue_in_for", "continue_in_while"))
    heapy = sum(f.get(k, 0) for k in ("str_concat_plus", "str_concat", "array_literal", "struct_literal", "union_construct", "array_push", "int_to_string"))
    nontrivial = v == "ok" and heapy > 0 and (exits > 0 or ref.stats["loop_iters"] >= 5)
    ev.case(src, nontrivial)
    ev.cls("verdict_" + v)
    if v == "inconclusive":
        ev.inconclusive += 1
    if nontrivial and len(ev.samples) < 2 and ev.evaluations % 9 == 2:
        ev.sample({"source": src[:2500]})
    if v == "violation":
        raise CaseFailure(detail, {"result": r.brief()})


def describe_failure(ctx, case, cf):
    kind, prog = case
    if kind == "fmt":
        return {"src": fmt_source(prog), "detail": cf.detail, "payload": cf.payload, "sigs": []}
    if kind == "list":
        return {"src": list_source(prog), "detail": cf.detail, "payload": cf.payload, "sigs": []}
    open_sigs = [f.get("signature") for f in common.open_findings(PROP) if f.get("signature")]
    return {"src": progen.print_program(prog), "detail": cf.detail, "payload": cf.payload, "sigs": signatures.matching(prog, open_sigs)}


def replay(path):
    ctx = make_ctx(0, "quick", {})
    ctx.tools.prewarm(ctx.dir)
    if path.endswith(".nano"):
        v, detail, r = run_san(ctx, open(path, encoding="utf-8", newline="").read(), "replay.nano")
        print("replay:", v, detail)
        return 1 if v == "violation" else 0
    lines = open(path).read().split("\n")
    mode, params = lines[0].split(" ", 1)
    probe = common.build_probe("rt_probe", "asan")
    r = subprocess.run([probe, mode], capture_output=True, text=True, env=dict(os.environ, RC_PARAMS=params, ASAN_OPTIONS="detect_leaks=0"))
    bad = r.returncode != 0
    print("replay:", "FAILS" if bad else "passes", (r.stdout + r.stderr)[-400:])
    return 1 if bad else 0


def main(tier):
    ev = Evidence(PROP, tier, "exploration", RULE)
    ctx = make_ctx(99, tier, {})
    ctx.tools.prewarm(ctx.dir)
    sd = common.seed()
    nviol = 0
    for f in common.open_findings(PROP):
        rp = os.path.join(common.VERIF, f["replay"][PROP])
        v, detail, r = run_san(ctx, open(rp, encoding="utf-8", newline="").read(), "known.nano")
        if v == "violation":
            common.report_known(PROP, "%s [%s]" % (f["what"], f["id"]))
            ev.known.append(f["id"])
    for f in common.fixed_findings(PROP):
        rp = os.path.join(common.VERIF, f["replay"][PROP])
        v, detail, r = run_san(ctx, open(rp, encoding="utf-8", newline="").read(), "fixed.nano")
        ev.cls("fixed_regression_replayed")
        if v == "violation":
            print("C20: fixed finding %s is back: %s" % (f["id"], detail))
            common.report_violation(PROP, rp)
            nviol += 1
    # (b) runtime containers
    probe = common.build_probe("rt_probe", "asan")
    for mode, ms in (("dyn", 4000 if tier == "quick" else 200000), ("gc", 3000 if tier == "quick" else 100000)):
        params = "seed=%d max_success=%d max_size=200" % (sd + 1, ms)
        r = subprocess.run([probe, mode], capture_output=True, text=True, env=dict(os.environ, RC_PARAMS=params, ASAN_OPTIONS="detect_leaks=0"))
        summ = None
        fails = []
        for line in r.stdout.splitlines():
            if line.startswith("SUMMARY "):
                summ = json.loads(line[8:])
            elif line.startswith("FAIL "):
                fails.append(line[5:])
        if summ is None or fails or r.returncode != 0:
            what = fails[0] if fails else "probe died: " + r.stderr[-1500:]
            p = common.save_replay(PROP, "runtime_%s_seed%d.txt" % (mode, sd), "%s %s\n%s\n" % (mode, params, what))
            print("C20: runtime %s histories: %s" % (mode, what[:400]))
            common.report_violation(PROP, p)
            nviol += 1
        if summ:
            ev.evaluations += summ["evaluations"]
            ev.nontrivial_extra += summ["distinct_nontrivial"]
            ev.cls("runtime_%s_histories" % mode, summ["evaluations"])
            ev.cls("runtime_%s_commands" % mode, summ["commands"])
            for k, v in summ["classes"].items():
                ev.cls("dyn_" + k, v)
            for s in summ["samples"][:1]:
                ev.sample({"runtime_history_" + mode: s})
    # (a) programs
    total = 480 if tier == "quick" else 12000
    results = harness.run_workers("pbt.c20_memsafe", tier, total)
    for r in results:
        ev.merge(r["evidence"])
        if r["error"]:
            print("C20: worker %d harness error (not a verdict):\n%s" % (r["widx"], r["error"]), file=sys.stderr)
            ev.cls("worker_errors")
        fl = r["failure"]
        if fl:
            again = [run_san(ctx, fl["src"], "confirm.nano")[0] for _ in range(3)]
            if not all(a == "violation" for a in again):
                ev.inconclusive += 1
                continue
            if fl["sigs"]:
                ev.cls("failure_matching_known_signature")
                continue
            p = common.save_replay(PROP, "native_seed%d_w%d.nano" % (sd, r["widx"]), fl["src"])
            print("C20: %s" % fl["detail"])
            common.report_violation(PROP, p)
            nviol += 1
    ev.extra["gated_features"] = ctx.gated
    ev.assumptions = ["leaks are not part of the property (detect_leaks=0)", "generated code and runtime are compiled by clang -O1 -fsanitize=address,undefined with warnings non-fatal; "
                      "HashMap / List<T> ownership paths are not generated", "dyn_array_insert_* are declared but not defined in the runtime and therefore not exercised"]
    if ev.classes.get("worker_errors"):
        ev.write()
        sys.exit(2)
    common.finish(ev, nviol)
