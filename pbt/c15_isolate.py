"""C15 - isolating external calls in the co-process does not change program behaviour.

(a) rapidcheck (probes/cop_probe.cc, ASan/UBSan): NanoValue trees of transferable types - int incl. boundaries, float
    by bit pattern incl. NaN payloads / inf / -0.0, bool, strings of length 0..70 000 with arbitrary non-NUL bytes,
    opaque, void, arrays nested to depth 3, empty arrays: deserialize(serialize(v)) == v deeply and bitwise,
    consumed == written, exact-fit buffers, too-small buffers and truncated inputs are refused.
(b) generated programs that call the builtin extern set (is_digit is_alpha is_alnum is_whitespace is_upper is_lower
    digit_value char_to_lower char_to_upper string_from_char sqrt pow floor ceil ... and user `extern fn` declarations of
    libc functions inside `unsafe`) with boundary arguments, several calls per run so the co-process is reused:
    stdout + exit status of `nano_vm x.nvm` == `nano_vm --isolate-ffi x.nvm` with the real nano_cop first on PATH.
"""
import json
import os
import subprocess
import sys

from hypothesis import strategies as st

from . import common, harness, runner
from .common import Evidence
from .harness import CaseFailure

PROP = "C15"
RULE = ("(a) value trees: non-trivial = contains a string > 255 bytes or a non-ASCII byte, a negative int, a non-finite "
        "float or a non-empty array; distinct by serialized bytes. (b) programs: 2-10 external calls with generated "
        "arguments; non-trivial = a call crossing the boundary with such a value (long / non-ASCII string, negative int, "
        "non-finite float result); distinct by source hash")

CHAR_FNS = ["is_digit", "is_alpha", "is_alnum", "is_whitespace", "is_upper", "is_lower"]
CHAR_MAP = ["char_to_lower", "char_to_upper", "digit_value"]
MATH1 = ["sqrt", "floor", "ceil", "sin", "cos"]
LIBC_INT = [("abs", 1), ("labs", 1), ("toupper", 1), ("tolower", 1), ("isdigit", 1)]


@st.composite
def case(draw):
    calls = []
    n = draw(st.integers(2, 10))
    for _ in range(n):
        k = draw(st.integers(0, 9))
        if k == 0:
            c = draw(st.sampled_from([0, 9, 10, 32, 47, 48, 57, 58, 64, 65, 90, 91, 96, 97, 122, 123, 127]))
            calls.append(("char_pred", draw(st.sampled_from(CHAR_FNS)), c))
        elif k == 1:
            c = draw(st.sampled_from([48, 57, 65, 90, 97, 122, 32, 95]))
            calls.append(("char_map", draw(st.sampled_from(CHAR_MAP)), c))
        elif k == 2:
            calls.append(("math1", draw(st.sampled_from(MATH1)), draw(st.sampled_from(["0.0", "1.0", "2.25", "16.0", "100.5", "1000000.0", "0.5"]))))
        elif k == 3:
            calls.append(("pow", "pow", (draw(st.sampled_from(["2.0", "10.0", "0.5", "1.5"])), draw(st.sampled_from(["0.0", "2.0", "10.0", "0.5"])))))
        elif k == 4:
            calls.append(("strlen", "strlen", draw(st.sampled_from([0, 1, 5, 255, 256, 4000, 8180, 8190, 8200, 20000, 70000]))))
        elif k == 5:
            f, _a = draw(st.sampled_from(LIBC_INT))
            calls.append(("libc_int", f, draw(st.sampled_from([0, 1, -1, 97, 65, 48, -2147483647, 2147483647, 255]))))
        elif k == 6:
            calls.append(("string_from_char", "string_from_char", draw(st.sampled_from([65, 97, 48, 126, 33]))))
        elif k in (8, 9):
            # several string arguments in one request: lengths around the 8 KiB request buffer and its regrowth steps
            lens = [0, 1, 100, 4000, 8170, 8181, 8200, 16384, 16400, 32768, 65537, 70000]
            la, lb = draw(st.sampled_from(lens)), draw(st.sampled_from(lens))
            ca, cb = draw(st.sampled_from("abz")), draw(st.sampled_from("abz"))
            fn = draw(st.sampled_from(["strcmp", "strncmp", "strspn"]))
            calls.append(("str2", fn, (la, lb, ca, cb, draw(st.sampled_from([0, 1, 50, 9000, 80000])))))
        else:
            calls.append(("strlen_utf8", "strlen", draw(st.sampled_from(["é", "中文", "aé" * 50, "ü" * 3000]))))
    return {"calls": calls, "exit": draw(st.integers(0, 255))}


def build(c):
    decl = set()
    body = ['(println "START")']
    for i, call in enumerate(c["calls"]):
        kind, fn, arg = call
        if kind in ("char_pred", "char_map"):
            body.append("(println (%s %d))" % (fn, arg))
        elif kind == "math1":
            body.append("let m%d: float = (%s %s)" % (i, fn, arg))
            body.append("(println (cast_int (* m%d 1000.0)))" % i)
            body.append("(println (< m%d 3.5))" % i)
        elif kind == "pow":
            body.append("let m%d: float = (pow %s %s)" % (i, arg[0], arg[1]))
            body.append("(println (cast_int (* m%d 1000.0)))" % i)
        elif kind == "strlen":
            decl.add("extern fn strlen(s: string) -> int")
            body.append("let mut n%d: int = 0" % i)
            body.append('unsafe { set n%d (strlen "%s") }' % (i, "k" * arg))
            body.append("(println n%d)" % i)
        elif kind == "strlen_utf8":
            decl.add("extern fn strlen(s: string) -> int")
            body.append("let mut n%d: int = 0" % i)
            body.append('unsafe { set n%d (strlen "%s") }' % (i, arg))
            body.append("(println n%d)" % i)
        elif kind == "libc_int":
            decl.add("extern fn %s(x: int) -> int" % fn)
            body.append("let mut n%d: int = 0" % i)
            body.append("unsafe { set n%d (%s %d) }" % (i, fn, arg))
            body.append("(println n%d)" % i)
        elif kind == "string_from_char":
            body.append("(println (string_from_char %d))" % arg)
        elif kind == "str2":
            la, lb, ca, cb, nn = arg
            body.append("let mut n%d: int = 0" % i)
            if fn == "strncmp":
                decl.add("extern fn strncmp(a: string, b: string, n: int) -> int")
                body.append('unsafe { set n%d (strncmp "%s" "%s" %d) }' % (i, ca * la, cb * lb, nn))
            elif fn == "strcmp":
                decl.add("extern fn strcmp(a: string, b: string) -> int")
                body.append('unsafe { set n%d (strcmp "%s" "%s") }' % (i, ca * la, cb * lb))
            else:
                decl.add("extern fn strspn(a: string, b: string) -> int")
                body.append('unsafe { set n%d (strspn "%s" "%s") }' % (i, ca * la, cb * max(lb, 1)))
            if fn == "strspn":
                body.append("(println n%d)" % i)
            else:
                body.append("(println (< n%d 0))" % i)
                body.append("(println (== n%d 0))" % i)
    body.append('(println "END")')
    body.append("return %d" % c["exit"])
    return "\n".join(sorted(decl)) + "\nfn main() -> int {\n" + "\n".join("    " + l for l in body) + "\n}\nshadow main { assert true }\n"


class Ctx:
    pass


def make_ctx(widx, tier, opts):
    ctx = Ctx()
    ctx.tools = runner.Tools("plain")
    ctx.dir = os.path.join(common.scratch(), "w%d" % widx)
    os.makedirs(ctx.dir, exist_ok=True)
    return ctx


def strategy(ctx):
    return case()


def compare(ctx, src, name="x.nano"):
    p = runner.write_src(ctx.dir, name, src)
    nvm = p[:-5] + ".nvm"
    rc, out, err, to = ctx.tools.emit_nvm(p, nvm, ctx.dir)
    if to:
        return "inconclusive", "", None
    if rc != 0:
        return "not_accepted", err[-300:].decode("utf-8", "replace"), None
    a = common.run([ctx.tools.vm, nvm], timeout=60, cwd=ctx.dir, env=ctx.tools.env)
    b = common.run([ctx.tools.vm, "--isolate-ffi", nvm], timeout=60, cwd=ctx.dir, env=ctx.tools.env)
    if a[3] or b[3]:
        return "inconclusive", "", None
    if a[0] is not None and a[0] < 0:
        return "skipped", "in-process run died with a signal (not a C15 matter)", None
    if (a[0], a[1]) != (b[0], b[1]):
        return "differ", "in-process: exit %s stdout %r | isolated: exit %s stdout %r stderr %r" % (a[0], a[1][-200:], b[0], b[1][-200:], b[2][-200:]), (a, b)
    return "same", "", (a, b)


def run_case(ctx, c, ev):
    src = build(c)
    v, detail, ab = compare(ctx, src)
    big = any((k == "strlen" and a > 255) or k == "strlen_utf8" or (k == "libc_int" and a < 0) for (k, _f, a) in c["calls"])
    ev.case(src, v == "same" and big)
    ev.cls("verdict_" + v)
    for (k, _f, _a) in c["calls"]:
        ev.cls("call_" + k)
    if v == "inconclusive":
        ev.inconclusive += 1
    if v == "same" and big and len(ev.samples) < 2 and ev.evaluations % 7 == 1:
        ev.sample({"source": src[:1200] + ("..." if len(src) > 1200 else "")})
    if v == "differ":
        raise CaseFailure(detail, {})


def describe_failure(ctx, c, cf):
    return {"src": build(c), "detail": cf.detail, "payload": {}, "sigs": []}


def replay(path):
    ctx = make_ctx(0, "quick", {})
    v, detail, ab = compare(ctx, open(path, encoding="utf-8", newline="").read(), "replay.nano")
    print("replay:", v, detail[:600])
    return 1 if v == "differ" else 0


def main(tier):
    ev = Evidence(PROP, tier, "exploration", RULE)
    ctx = make_ctx(99, tier, {})
    sd = common.seed()
    nviol = 0
    for f in common.fixed_findings(PROP):
        rp = os.path.join(common.VERIF, f["replay"][PROP])
        ev.cls("fixed_regression_replayed")
        v, detail, ab = compare(ctx, open(rp, encoding="utf-8", newline="").read(), "fixed.nano")
        if v == "differ":
            print("C15: fixed finding %s is back: %s" % (f["id"], detail[:300]))
            common.report_violation(PROP, rp)
            nviol += 1
    for f in common.open_findings(PROP):
        rp = os.path.join(common.VERIF, f["replay"][PROP])
        v, detail, ab = compare(ctx, open(rp, encoding="utf-8", newline="").read(), "known.nano")
        if v == "differ":
            common.report_known(PROP, "%s [%s]" % (f["what"], f["id"]))
            ev.known.append(f["id"])
    # (a) codec
    probe = common.build_probe("cop_probe", "asan")
    ms = 20000 if tier == "quick" else 1000000
    params = "seed=%d max_success=%d" % (sd + 1, ms)
    r = subprocess.run([probe, "rt"], capture_output=True, text=True, env=dict(os.environ, RC_PARAMS=params, ASAN_OPTIONS="detect_leaks=0"))
    summ = None
    fails = []
    for line in r.stdout.splitlines():
        if line.startswith("SUMMARY "):
            summ = json.loads(line[8:])
        elif line.startswith("FAIL "):
            fails.append(line[5:])
    if summ is None or fails or r.returncode != 0:
        what = fails[0] if fails else "probe died: " + r.stderr[-1500:]
        p = common.save_replay(PROP, "codec_seed%d.txt" % sd, "cop_probe rt RC_PARAMS='%s'\n%s\n" % (params, what))
        print("C15: value codec: %s" % what[:400])
        common.report_violation(PROP, p)
        nviol += 1
    if summ:
        ev.evaluations += summ["evaluations"]
        ev.nontrivial_extra += summ["distinct_nontrivial"]
        for k, v in summ["classes"].items():
            ev.cls("codec_" + k, v)
        for s in summ["samples"][:2]:
            ev.sample({"value_tree": s})
    # (b) programs
    total = 320 if tier == "quick" else 5000
    results = harness.run_workers("pbt.c15_isolate", tier, total)
    for r in results:
        ev.merge(r["evidence"])
        if r["error"]:
            print("C15: worker %d harness error (not a verdict):\n%s" % (r["widx"], r["error"]), file=sys.stderr)
            ev.cls("worker_errors")
        fl = r["failure"]
        if fl:
            again = [compare(ctx, fl["src"], "confirm.nano")[0] for _ in range(3)]
            if not all(a == "differ" for a in again):
                ev.inconclusive += 1
                continue
            p = common.save_replay(PROP, "isolate_seed%d_w%d.nano" % (sd, r["widx"]), fl["src"])
            print("C15: %s" % fl["detail"][:700])
            common.report_violation(PROP, p)
            nviol += 1
    ev.assumptions = ["process clean-up after the run is C16's claim and is not asserted here", "floats are observed through cast_int(x*1000) and comparisons (the language prints floats differently on purpose)"]
    if ev.classes.get("worker_errors"):
        ev.write()
        sys.exit(2)
    common.finish(ev, nviol)
