"""C13 - no bytecode input can make the loader, verifier or VM misbehave.

Coverage-guided fuzzing (libFuzzer, ASan+UBSan) of probes/fuzz_nvm.cc: raw images with the checksum recomputed
(hostile but well-checksummed files are the norm) and structure-aware modules built through the nvm_* API from a
weighted instruction alphabet with boundary operands, then patched at table / directory offsets with boundary values.
Oracle inside the target: nvm_deserialize and nvm_verify return; accepted modules without imports are executed under an
instruction budget (hook H1) with output to /dev/null and must end with VM_OK or an error code; no ASan/UBSan report,
no signal; a decode / invalid-opcode error at an instruction boundary of the verifier's own linear walk is a violation.
crash- artifacts are confirmed by re-running them three times and, for raw images, through `nano_vm <file>`.
"""
import glob
import os
import re
import shutil
import subprocess
import sys

from . import common, runner
from .common import Evidence

PROP = "C13"
RULE = ("libFuzzer executions of the loader->verifier->VM target; non-trivial = the input passed the header and checksum "
        "checks and was loaded (counted inside the target; sub-classes: accepted by the verifier, executed, executed >= 10 "
        "instructions); distinct = corpus units the fuzzer kept (new coverage)")

SEED_PROGRAMS = {
    "arith": 'fn f(a: int, b: int) -> int {\n    return (+ (* a b) (- a b))\n}\nshadow f { assert true }\nfn main() -> int {\n    (println (f 6 7))\n    return 0\n}\nshadow main { assert true }\n',
    "strings_arrays": 'struct P { x: int, s: string }\nunion R { Ok { v: int }, Err { m: string } }\nfn main() -> int {\n    let mut a: array<int> = [1, 2, 3]\n    set a (array_push a 4)\n    (array_set a 0 9)\n    let p: P = P { x: (at a 0), s: (+ "a" "b") }\n    let t: (int, string) = (1, "t")\n    let r: R = R.Ok { v: p.x }\n    match r {\n        Ok(o) => { (println o.v) }\n        Err(e) => { (println e.m) }\n    }\n    for i in (range 0 3) { (println (at a i)) }\n    (println (str_length p.s))\n    (println t.1)\n    return 0\n}\nshadow main { assert true }\n',
    "closures": 'fn dbl(x: int) -> int {\n    return (* x 2)\n}\nshadow dbl { assert true }\nfn ap(g: fn(int) -> int, v: int) -> int {\n    return (g v)\n}\nshadow ap { assert true }\nlet G: int = 5\nfn main() -> int {\n    let h: fn(int) -> int = dbl\n    (println (ap h G))\n    let mut i: int = 0\n    while (< i 3) { set i (+ i 1) }\n    return i\n}\nshadow main { assert true }\n',
}


def make_seeds(work, tools):
    seeds = os.path.join(work, "seeds")
    os.makedirs(seeds, exist_ok=True)
    n = 0
    srcs = []
    for name, src in SEED_PROGRAMS.items():
        p = os.path.join(work, name + ".nano")
        open(p, "w").write(src)
        srcs.append((p, work))
    for f in sorted(glob.glob(os.path.join(common.REPO, "tests", "*.nano")))[::4]:
        srcs.append((f, common.REPO))
    for (p, cwd) in srcs:
        o = os.path.join(work, "s%d.nvm" % n)
        rc, out, err, to = common.run([tools.virt, p, "--emit-nvm", "-o", o], timeout=30, cwd=cwd, env=tools.env)
        if rc == 0 and os.path.exists(o) and os.path.getsize(o) < 8000:
            with open(os.path.join(seeds, "seed%03d" % n), "wb") as fh:
                fh.write(b"\x02" + open(o, "rb").read())
            n += 1
    # a few structured-mode seeds
    for i in range(4):
        with open(os.path.join(seeds, "structured%d" % i), "wb") as fh:
            fh.write(b"\x01" + bytes((i * 37 + j * 11) & 0xFF for j in range(200)))
    return seeds, n


def confirm(probe, path):
    bad = 0
    last = ""
    for _ in range(3):
        r = subprocess.run([probe, path], capture_output=True, env=dict(os.environ, ASAN_OPTIONS="detect_leaks=0", UBSAN_OPTIONS="print_stacktrace=1"), timeout=120)
        if r.returncode != 0:
            bad += 1
            err = r.stderr.decode("utf-8", "replace")
            m = re.search(r"(ERROR: AddressSanitizer: [^\n]*|[^\n]*runtime error:[^\n]*|VIOLATION-C13[^\n]*|deadly signal[^\n]*)", err)
            last = m.group(1)[:300] if m else err[-300:]
    return bad == 3, last


def replay(path):
    probe = common.build_probe("fuzz_nvm", "fuzz", libs=(), fuzzer=True)
    ok, why = confirm(probe, path)
    print("replay:", "FAILS: " + why if ok else "passes")
    data = open(path, "rb").read()
    if data and not (data[0] & 1):
        tools = runner.Tools("asan")
        d = common.scratch()
        f = os.path.join(d, "replay.nvm")
        open(f, "wb").write(data[1:])
        rc, out, err, to = common.run([tools.vm, f], timeout=60, env=dict(tools.env, NANOLANG_VERIF_FUEL="200000"))
        print("nano_vm (ASan build): rc=%s timeout=%s %s" % (rc, to, err[-200:].decode("utf-8", "replace")))
    return 1 if ok else 0


def main(tier):
    ev = Evidence(PROP, tier, "exploration", RULE)
    sd = common.seed()
    tools = runner.Tools("plain")
    probe = common.build_probe("fuzz_nvm", "fuzz", libs=(), fuzzer=True)
    nviol = 0
    for f in common.fixed_findings(PROP):
        rp = os.path.join(common.VERIF, f["replay"][PROP])
        ev.cls("fixed_regression_replayed")
        ok, why = confirm(probe, rp)
        if ok:
            print("C13: fixed finding %s is back: %s" % (f["id"], why))
            common.report_violation(PROP, rp)
            nviol += 1
    for f in common.open_findings(PROP):
        rp = os.path.join(common.VERIF, f["replay"][PROP])
        ok, why = confirm(probe, rp)
        if ok:
            common.report_known(PROP, "%s [%s]" % (f["what"], f["id"]))
            ev.known.append(f["id"])
    work = os.path.join(common.disk_scratch(), "c13")
    os.makedirs(work, exist_ok=True)
    seeds, nseeds = make_seeds(work, tools)
    jobs = 8 if tier == "quick" else 16
    secs = 45 if tier == "quick" else 1200
    procs = []
    for j in range(jobs):
        cdir = os.path.join(work, "c%d" % j)
        os.makedirs(cdir, exist_ok=True)
        args = [probe, "-max_len=8192", "-timeout=25", "-rss_limit_mb=3000", "-max_total_time=%d" % secs, "-seed=%d" % (sd * 100 + j + 1),
                "-close_fd_mask=1", "-print_final_stats=1", "-artifact_prefix=%s/art%d_" % (work, j), cdir]
        if j % 4 != 3:
            args.append(seeds)
        env = dict(os.environ, ASAN_OPTIONS="detect_leaks=0:allocator_may_return_null=1", UBSAN_OPTIONS="print_stacktrace=1")
        procs.append(subprocess.Popen(args, stdout=subprocess.DEVNULL, stderr=open(os.path.join(work, "log%d" % j), "w"), env=env))
    for p in procs:
        try:
            p.wait(timeout=secs + 180)
        except subprocess.TimeoutExpired:
            p.kill()
    tot = {"total": 0, "loaded": 0, "verified": 0, "executed": 0, "executed_ge10": 0}
    units = 0
    cov = 0
    for j in range(jobs):
        log = open(os.path.join(work, "log%d" % j), errors="replace").read()
        for m in re.finditer(r"C13STATS total=(\d+) loaded=(\d+) verified=(\d+) executed=(\d+) executed_ge10=(\d+)", log):
            for k, v in zip(("total", "loaded", "verified", "executed", "executed_ge10"), m.groups()):
                tot[k] += int(v)
        m2 = re.findall(r"cov: (\d+) ft: \d+ corp: (\d+)", log)
        if m2:
            cov = max(cov, int(m2[-1][0]))
            units += int(m2[-1][1])
    ev.evaluations = tot["total"]
    ev.nontrivial_extra = units
    for k, v in tot.items():
        ev.cls("inputs_" + k, v)
    ev.extra["fuzzer"] = {"jobs": jobs, "seconds_each": secs, "corpus_units_kept": units, "max_edge_coverage": cov, "seed_files": nseeds + 4}
    ev.sample({"seed_program": SEED_PROGRAMS["arith"], "note": "compiled to .nvm, prefixed with the mode byte 0x02 (raw image, checksum recomputed after mutation)"})
    ev.sample({"structured_mode": "first byte odd: FuzzedDataProvider builds strings, 1-4 functions with 0-40 instructions from a 90-opcode alphabet "
                                  "with boundary operands, serializes, patches up to 3 u32 fields at offsets >= 8 with boundary values, recomputes the CRC"})
    seen = set()
    for a in sorted(glob.glob(os.path.join(work, "art*_*"))):
        kind = os.path.basename(a).split("_", 1)[1].split("-")[0]
        ev.cls("artifact_" + kind)
        if kind == "timeout":
            # one input runs under an instruction budget of 10^5: milliseconds. Not finishing within 100 s, twice, alone,
            # is not load noise - some single step does not terminate in any useful sense
            hung = 0
            for _ in range(2):
                try:
                    subprocess.run([probe, a], capture_output=True, timeout=100,
                                   env=dict(os.environ, ASAN_OPTIONS="detect_leaks=0:allocator_may_return_null=1"))
                except subprocess.TimeoutExpired:
                    hung += 1
            if hung == 2 and "hang" not in seen:
                seen.add("hang")
                dst = common.save_replay(PROP, "hang_" + os.path.basename(a).split("-", 1)[1][:40], open(a, "rb").read(), binary=True)
                print("C13: an accepted module does not finish within 100 s under the instruction budget (two runs, alone)")
                common.report_violation(PROP, dst)
                nviol += 1
            else:
                ev.cls("artifact_timeout_not_reproduced")
            continue
        if kind != "crash":
            continue       # oom / slow-unit / leak: load noise, not violations
        ok, why = confirm(probe, a)
        if not ok:
            ev.cls("artifact_crash_not_reproduced")
            continue
        key = re.sub(r"0x[0-9a-f]+|\d+", "N", why)[:90]
        if key in seen:
            continue
        seen.add(key)
        dst = common.save_replay(PROP, os.path.basename(a).split("_", 1)[1][:48], open(a, "rb").read(), binary=True)
        print("C13: %s" % why)
        common.report_violation(PROP, dst)
        nviol += 1
    if tot["loaded"] < 1000:
        print("C13: the fuzzer loaded only %d inputs - campaign did not run properly (machinery error)" % tot["loaded"], file=sys.stderr)
        ev.write()
        sys.exit(2)
    ev.assumptions = ["memory exhaustion by a hostile module (e.g. repeated 65535-field allocations) shows up as oom-/slow-unit artifacts, which are treated as load noise: "
                      "bounded memory is not part of the statement", "instruction budget 20 000 per execution (hook H1)"]
    common.finish(ev, nviol)
