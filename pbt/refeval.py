"""refeval - reference evaluator over progen's AST, transcribed from docs/SPECIFICATION.md sections 4-8
(and docs/STDLIB.md for the builtins the generator uses).

Semantics implemented ('spec' mode):
  * strict left-to-right evaluation of operands, call arguments, array/struct/tuple/union literal elements (4.9)
  * short-circuit and/or (8.5); equal-precedence infix is already resolved in the AST
  * static scoping with block shadowing (8.1, 8.2); parameters and non-mut lets are immutable (5.1, 6.2)
  * int = 64-bit two's complement, + - * wrap; / and % truncate toward zero (C semantics of the transpiled code)
  * strings are byte strings; str_length counts bytes
  * arrays are mutable objects with identity (array_set mutates in place, array_push returns the array)
Result: Outcome(kind, stdout bytes, exit) with kind in normal / assert / undefined / budget.
"""
import struct as _struct

MASK = (1 << 64) - 1


def wrap(x):
    x &= MASK
    return x - (1 << 64) if x >> 63 else x


class Undefined(Exception):
    pass


class Budget(Exception):
    pass


class AssertFail(Exception):
    pass


class _Return(Exception):
    def __init__(self, v):
        self.v = v


class _Break(Exception):
    pass


class _Continue(Exception):
    pass


class Arr:
    __slots__ = ("items", "elem")

    def __init__(self, items, elem):
        self.items = items
        self.elem = elem


class Outcome:
    def __init__(self, kind, out, exit_code, why=""):
        self.kind = kind
        self.out = out
        self.exit = exit_code
        self.why = why
        self.steps = 0
        self.stats = {}

    def __repr__(self):
        return "Outcome(%s, exit=%s, %d bytes%s)" % (self.kind, self.exit, len(self.out), (", " + self.why) if self.why else "")


def unescape(b):
    """Source-text bytes of a string literal -> value bytes (C escape processing as the transpiler emits it)."""
    if b"\\" not in b:
        return b
    out = bytearray()
    i = 0
    while i < len(b):
        c = b[i]
        if c == 0x5C and i + 1 < len(b):
            n = b[i + 1]
            out.append({0x6E: 10, 0x74: 9, 0x5C: 0x5C, 0x22: 0x22, 0x72: 13, 0x30: 0}.get(n, n))
            i += 2
        else:
            out.append(c)
            i += 1
    return bytes(out)


class HMap:
    __slots__ = ("d",)

    def __init__(self):
        self.d = {}


def fmt_value(v):
    if isinstance(v, bool):
        return b"true" if v else b"false"
    if isinstance(v, int):
        return str(v).encode()
    if isinstance(v, float):
        return ("%g" % v).encode()      # C's %g: all three engines print floats with it
    if isinstance(v, bytes):
        return v
    if isinstance(v, tuple) and v and v[0] == "enum":
        return str(v[2]).encode()
    raise Undefined("printing a non-printable value")


class Frame:
    __slots__ = ("scopes",)

    def __init__(self):
        self.scopes = [{}]


class Evaluator:
    def __init__(self, prog, budget=300000, trunc_div=True):
        self.prog = prog
        self.funcs = {f["name"]: f for f in prog["funcs"]}
        self.structs = dict(prog["structs"])
        self.enums = {n: dict(vs) for n, vs in prog["enums"]}
        self.unions = dict(prog["unions"])
        self.globals = {}
        self.out = bytearray()
        self.steps = 0
        self.budget = budget
        self.depth = 0
        self.max_depth = 0
        self.stats = {"calls": 0, "loop_iters": 0, "lines": 0, "max_shadow_depth": 0, "wraps": 0, "short_circuits": 0}

    # -- variables
    def lookup(self, fr, n):
        for s in reversed(fr.scopes):
            if n in s:
                return s[n]
        if n in self.globals:
            return self.globals[n]
        raise Undefined("unbound variable " + n)

    def assign(self, fr, n, v):
        for s in reversed(fr.scopes):
            if n in s:
                s[n] = v
                return
        raise Undefined("assignment to unbound variable " + n)

    def tick(self):
        self.steps += 1
        if self.steps > self.budget:
            raise Budget()

    # -- expressions
    def ev(self, fr, e):
        self.tick()
        k = e[0]
        if k == "int":
            return e[1]
        if k == "bool":
            return e[1]
        if k == "str":
            return unescape(e[1])
        if k == "float":
            return float(e[1])
        if k == "var":
            return self.lookup(fr, e[1])
        if k == "bin":
            return self.binop(fr, e)
        if k == "un":
            v = self.ev(fr, e[2])
            if e[1] == "-":
                if isinstance(v, float):
                    return -v
                r = wrap(-v)
                if r != -v:
                    self.stats["wraps"] += 1
                return r
            return not v
        if k == "call":
            args = [self.ev(fr, a) for a in e[2]]
            return self.call(e[1], args)
        if k == "callv":
            fn = self.ev(fr, e[1])
            args = [self.ev(fr, a) for a in e[2]]
            return self.call(fn[1], args)
        if k == "fnref":
            return ("fn", e[1])
        if k == "bi":
            return self.builtin(fr, e[1], e[2])
        if k == "field":
            v = self.ev(fr, e[1])
            if isinstance(v, dict):
                if e[2] not in v:
                    raise Undefined("no field " + e[2])
                return v[e[2]]
            if isinstance(v, tuple) and v[0] == "union":
                if e[2] not in v[3]:
                    raise Undefined("field of another variant")
                return v[3][e[2]]
            raise Undefined("field access on non-struct")
        if k == "mk":
            return {f: self.ev(fr, x) for f, x in e[2]}
        if k == "tup":
            return ("tuple", [self.ev(fr, x) for x in e[1]])
        if k == "tidx":
            v = self.ev(fr, e[1])
            if e[2] >= len(v[1]):
                raise Undefined("tuple index")
            return v[1][e[2]]
        if k == "enum":
            return ("enum", e[1], self.enums[e[1]][e[2]])
        if k == "umk":
            return ("union", e[1], e[2], {f: self.ev(fr, x) for f, x in e[3]})
        if k == "arr":
            return Arr([self.ev(fr, x) for x in e[2]], e[1])
        if k == "cond":
            for c, v in e[1]:
                if self.ev(fr, c):
                    return self.ev(fr, v)
            return self.ev(fr, e[2])
        raise ValueError(e)

    def binop(self, fr, e):
        op = e[1]
        if op == "and":
            a = self.ev(fr, e[2])
            if not a:
                self.stats["short_circuits"] += 1
                return False
            return bool(self.ev(fr, e[3]))
        if op == "or":
            a = self.ev(fr, e[2])
            if a:
                self.stats["short_circuits"] += 1
                return True
            return bool(self.ev(fr, e[3]))
        a = self.ev(fr, e[2])
        b = self.ev(fr, e[3])
        if op in ("==", "!="):
            eq = self.equal(a, b)
            return eq if op == "==" else not eq
        if isinstance(a, tuple) and a and a[0] == "enum" and op in ("<", "<=", ">", ">="):
            x, y = a[2], b[2]          # enum values order as the integers they denote
            return {"<": x < y, "<=": x <= y, ">": x > y, ">=": x >= y}[op]
        if isinstance(a, bytes):
            if op == "+":
                return a + b
            raise Undefined("ordering on strings")
        if isinstance(a, float):
            if op == "+":
                return a + b
            if op == "-":
                return a - b
            if op == "*":
                return a * b
            if op == "/":
                if b == 0.0:
                    raise Undefined("float division by zero")
                return a / b
            return {"<": a < b, "<=": a <= b, ">": a > b, ">=": a >= b}[op]
        if op in ("<", "<=", ">", ">="):
            return {"<": a < b, "<=": a <= b, ">": a > b, ">=": a >= b}[op]
        if op == "+":
            r = a + b
        elif op == "-":
            r = a - b
        elif op == "*":
            r = a * b
        elif op in ("/", "%"):
            if b == 0:
                raise Undefined("division by zero")
            if a == -(1 << 63) and b == -1:
                raise Undefined("INT64_MIN / -1")
            q = abs(a) // abs(b)
            if (a < 0) != (b < 0):
                q = -q
            r = q if op == "/" else a - b * q
        else:
            raise ValueError(op)
        w = wrap(r)
        if w != r:
            self.stats["wraps"] += 1
        return w

    def equal(self, a, b):
        if isinstance(a, tuple) and a and a[0] == "enum":
            return a[2] == b[2]
        return a == b

    def builtin(self, fr, name, argexprs):
        args = [self.ev(fr, a) for a in argexprs]
        if name == "str_length":
            return len(args[0])
        if name == "str_concat":
            return args[0] + args[1]
        if name == "str_contains":
            return args[1] in args[0]
        if name == "str_equals":
            return args[0] == args[1]
        if name == "str_substring":
            s, st, ln = args
            if st < 0 or ln < 0 or st > len(s) or st + ln > len(s):
                raise Undefined("str_substring out of range")
            return s[st:st + ln]
        if name == "char_at":
            s, i = args
            if i < 0 or i >= len(s):
                raise Undefined("char_at out of range")
            return s[i]
        if name == "int_to_string":
            return str(args[0]).encode()
        if name == "abs":
            if args[0] == -(1 << 63):
                raise Undefined("abs(INT64_MIN)")
            return abs(args[0])
        if name == "min":
            return min(args[0], args[1])
        if name == "max":
            return max(args[0], args[1])
        if name == "array_length":
            return len(args[0].items)
        if name == "at":
            a, i = args
            if i < 0 or i >= len(a.items):
                raise Undefined("index out of bounds")
            return a.items[i]
        if name == "array_push":
            args[0].items.append(args[1])
            return args[0]
        if name == "array_set":
            a, i, v = args
            if i < 0 or i >= len(a.items):
                raise Undefined("index out of bounds")
            a.items[i] = v
            return None
        if name == "array_pop":
            if not args[0].items:
                raise Undefined("pop from empty array")
            return args[0].items.pop()
        if name == "map_new":
            return HMap()
        if name in ("map_put", "map_get", "map_has", "map_remove", "map_length"):
            m = args[0]
            if name == "map_length":
                return len(m.d)
            k = args[1]
            if name == "map_put":
                m.d[k] = args[2]
                return None
            if name == "map_has":
                return k in m.d
            if name == "map_remove":
                m.d.pop(k, None)
                return None
            if k not in m.d:
                raise Undefined("map_get of a missing key")
            return m.d[k]
        if name == "string_to_int":
            # C strtoll semantics on the generated inputs: optional sign, leading digits, rest ignored, "" -> 0
            import re as _re
            m = _re.match(rb"\s*([+-]?\d+)", args[0])
            return wrap(int(m.group(1))) if m else 0
        if name in ("char_to_lower", "char_to_upper", "digit_value"):
            c = args[0]
            if name == "char_to_lower":
                return c + 32 if 65 <= c <= 90 else c
            if name == "char_to_upper":
                return c - 32 if 97 <= c <= 122 else c
            return c - 48 if 48 <= c <= 57 else -1
        if name in ("is_digit", "is_alpha", "is_upper", "is_lower", "is_whitespace"):
            c = args[0]
            if not (0 <= c <= 127):
                raise Undefined("character class of a non-ASCII code")
            return {"is_digit": 48 <= c <= 57, "is_alpha": 65 <= c <= 90 or 97 <= c <= 122, "is_upper": 65 <= c <= 90,
                    "is_lower": 97 <= c <= 122, "is_whitespace": c in (32, 9, 10, 13, 11, 12)}[name]
        if name == "cast_int":
            v = args[0]
            if isinstance(v, bool):
                return 1 if v else 0
            if isinstance(v, float):
                if v != v or v >= 9.2e18 or v <= -9.2e18:
                    raise Undefined("cast_int of a float outside the int range")
                return int(v)
            return v
        if name == "cast_bool":
            return args[0] != 0 if not isinstance(args[0], bool) else args[0]
        if name == "cast_float":
            return float(args[0])
        if name == "cast_string":
            return fmt_value(args[0])
        if name == "string_from_char":
            return bytes([args[0]])
        if name == "sqrt":
            import math
            return math.sqrt(args[0])
        if name in ("floor", "ceil", "round"):
            import math
            v = args[0]
            if abs(v) > 1e300:
                raise Undefined("rounding a huge float")
            if name == "floor":
                r = float(math.floor(v))
            elif name == "ceil":
                r = float(math.ceil(v))
            else:
                r = float(math.floor(abs(v) + 0.5))                                  # C round(): halves away from zero
            return math.copysign(r, v) if (r == 0.0 or name == "round") else r       # the sign of zero follows the argument
        if name == "array_slice":
            a, st, ln = args
            if st < 0 or ln < 0 or st + ln > len(a.items):
                raise Undefined("slice out of range")
            return Arr(list(a.items[st:st + ln]), a.elem)
        raise ValueError("builtin " + name)

    def call(self, name, args):
        f = self.funcs[name]
        self.stats["calls"] += 1
        self.depth += 1
        self.max_depth = max(self.max_depth, self.depth)
        if self.depth > 200:
            raise Undefined("call depth")
        fr = Frame()
        for (pn, _pt), v in zip(f["params"], args):
            fr.scopes[0][pn] = v
        try:
            self.block(fr, f["body"], new_scope=False)
        except _Return as r:
            self.depth -= 1
            return r.v
        self.depth -= 1
        raise Undefined("function %s fell off its end" % name)

    # -- statements
    def block(self, fr, body, new_scope=True):
        if new_scope:
            fr.scopes.append({})
        try:
            for s in body:
                self.stmt(fr, s)
        finally:
            if new_scope:
                fr.scopes.pop()

    def stmt(self, fr, s):
        self.tick()
        k = s[0]
        if k == "let":
            v = self.ev(fr, s[3])
            depth = sum(1 for sc in fr.scopes if s[1] in sc) + (1 if s[1] in self.globals else 0)
            if depth + 1 > self.stats["max_shadow_depth"]:
                self.stats["max_shadow_depth"] = depth + 1
            fr.scopes[-1][s[1]] = v
        elif k == "set":
            self.assign(fr, s[1], self.ev(fr, s[2]))
        elif k == "if":
            if self.ev(fr, s[1]):
                self.block(fr, s[2])
            elif s[3] is not None:
                self.block(fr, s[3])
        elif k == "while":
            while self.ev(fr, s[1]):
                self.stats["loop_iters"] += 1
                try:
                    self.block(fr, s[2])
                except _Break:
                    break
                except _Continue:
                    continue
        elif k == "for":
            lo = self.ev(fr, s[2])
            hi = self.ev(fr, s[3])
            i = lo
            while i < hi:
                self.stats["loop_iters"] += 1
                fr.scopes.append({s[1]: i})
                try:
                    self.block(fr, s[4])
                except _Break:
                    fr.scopes.pop()
                    break
                except _Continue:
                    pass
                fr.scopes.pop()
                i += 1
        elif k == "break":
            raise _Break()
        elif k == "continue":
            raise _Continue()
        elif k == "return":
            raise _Return(None if s[1] is None else self.ev(fr, s[1]))
        elif k == "println":
            self.out += fmt_value(self.ev(fr, s[1])) + b"\n"
            self.stats["lines"] += 1
        elif k == "print":
            self.out += fmt_value(self.ev(fr, s[1]))
        elif k == "assert":
            if not self.ev(fr, s[1]):
                raise AssertFail()
        elif k == "expr":
            self.ev(fr, s[1])
        elif k == "match":
            v = self.ev(fr, s[1])
            for (vn, b, body) in s[3]:
                if vn == v[2]:
                    fr.scopes.append({b: v})
                    try:
                        self.block(fr, body)
                    finally:
                        fr.scopes.pop()
                    break
            else:
                raise Undefined("no match arm")
        else:
            raise ValueError(s)

    def run(self):
        try:
            fr = Frame()
            for (n, _t, e) in self.prog["globals"]:
                self.globals[n] = self.ev(fr, e)
            v = self.call("main", [])
            o = Outcome("normal", bytes(self.out), v & 0xFF)
        except Undefined as u:
            o = Outcome("undefined", bytes(self.out), None, str(u))
        except Budget:
            o = Outcome("budget", bytes(self.out), None)
        except AssertFail:
            o = Outcome("assert", bytes(self.out), None)
        except RecursionError:
            o = Outcome("budget", bytes(self.out), None, "python recursion")
        o.steps = self.steps
        self.stats["max_call_depth"] = self.max_depth
        o.stats = self.stats
        return o


def run(prog, budget=300000):
    return Evaluator(prog, budget).run()
