"""C14 - the VM heap never frees or loses count of an object that is still referenced.

Hook H2 (guarded): every vm_*_new registers the object, every free unregisters it (a free of an unregistered object
is reported at once); vm_verif_audit() at instruction boundaries walks the roots (operand stack incl. locals, globals)
and all containers reachable from them, counts references per object and reports (i) a reference to an object that is
no longer live, (ii) ref_count < number of references found.  At vm_destroy the live-object count is printed before
and after the roots are released.
Generated: progen programs in aliasing mode (the same array / struct / string / tuple / union / function value bound
to several names, stored into containers, passed through and returned from calls, overwritten while an alias is live,
early exits from nested loops) run on the VM with an audit at every instruction (plain build) and under ASan.
Churn family: loop templates whose body allocates values that die in the iteration, with k in {10, 100, 1000}
iterations: live(k=1000) - live(k=10) <= 8 objects.
"""
import json
import os
import re
import sys

from hypothesis import strategies as st

from . import common, harness, progen, refeval, runner, signatures
from .common import Evidence
from .harness import CaseFailure

PROP = "C14"
RULE = ("progen program (aliasing features on) run on the VM with a heap audit at every instruction boundary; non-trivial = "
        "the audit saw >= 10 reachable objects or an object with >= 2 references at some boundary; distinct by source hash. "
        "churn family: 12 loop bodies x k in {10,100,1000}")

STATS = re.compile(rb"VERIF-HEAP-STATS live=(\d+) registry=(\d+) allocated=(\d+) freed=(\d+) audits=(\d+) max_indegree=(\d+) max_reachable=(\d+)")

CHURN_BODIES = {
    "string_concat": ['let s: string = (+ "item" (int_to_string i))', "set acc (+ acc (str_length s))"],
    "array_literal": ["let a: array<int> = [i, (+ i 1), (+ i 2)]", "set acc (+ acc (at a 1))"],
    "array_push_drop": ["let mut a: array<int> = []", "set a (array_push a i)", "set a (array_push a (+ i 1))", "set acc (+ acc (array_length a))"],
    "struct_literal": ['let p: P = P { x: i, s: (int_to_string i) }', "set acc (+ acc p.x)"],
    "nested_struct": ['let q: Q = Q { p: P { x: i, s: "n" }, t: (i, "t") }', "set acc (+ acc q.p.x)"],
    "union_construct": ["let r: R = R.Ok { v: i }", "match r {", "    Ok(o) => { set acc (+ acc o.v) }", "    Err(e) => { set acc (+ acc 1) }", "}"],
    "tuple_literal": ['let t: (int, string) = (i, (+ "x" (int_to_string i)))', "set acc (+ acc t.0)"],
    "function_value_call": ["let h: fn(int) -> int = dbl", "set acc (+ acc (h i))"],
    "call_returning_string": ["let s: string = (mk i)", "set acc (+ acc (str_length s))"],
    "call_returning_array": ["let a: array<string> = (mka i)", "set acc (+ acc (array_length a))"],
    "string_array_of_arrays": ['let a: array<string> = [(int_to_string i), "k", (+ "a" "b")]', "set acc (+ acc (str_length (at a 0)))"],
    "overwrite_mut": ['let mut s: string = "a"', 'set s (+ s (int_to_string i))', 'set s (+ s "z")', "set acc (+ acc (str_length s))"],
}


def churn_program(name, k):
    body = CHURN_BODIES[name]
    return ('struct P { x: int, s: string }\nstruct Q { p: P, t: (int, string) }\nunion R { Ok { v: int }, Err { msg: string } }\n'
            'fn dbl(x: int) -> int {\n    return (* x 2)\n}\nshadow dbl { assert true }\n'
            'fn mk(n: int) -> string {\n    return (+ "made" (int_to_string n))\n}\nshadow mk { assert true }\n'
            'fn mka(n: int) -> array<string> {\n    return [(int_to_string n), "two"]\n}\nshadow mka { assert true }\n'
            'fn main() -> int {\n    let mut i: int = 0\n    let mut acc: int = 0\n    while (< i %d) {\n        set i (+ i 1)\n%s\n    }\n    (println acc)\n    return 0\n}\nshadow main { assert true }\n'
            % (k, "\n".join("        " + l for l in body)))


class Ctx:
    pass


def make_ctx(widx, tier, opts):
    ctx = Ctx()
    ctx.plain = runner.Tools("plain")
    ctx.asan = runner.Tools("asan")
    ctx.dir = os.path.join(common.scratch(), "w%d" % widx)
    os.makedirs(ctx.dir, exist_ok=True)
    F, ctx.gated = harness.features_for(PROP)
    ctx.features = F | {"array_alias"}
    ctx.size = 3
    return ctx


def strategy(ctx):
    return progen.programs(features=ctx.features, size=ctx.size)


def run_audit(ctx, src, name="p.nano", stride=1, asan=False):
    p = runner.write_src(ctx.dir, name, src)
    tools = ctx.asan if asan else ctx.plain
    env = dict(tools.env, NANOLANG_VERIF_AUDIT=str(stride), NANOLANG_VERIF_FD="2", NANOLANG_VERIF_FUEL="400000")
    rc, out, err, to = common.run([tools.virt, p, "--run"], timeout=120, cwd=ctx.dir, env=env)
    if to:
        return {"v": "inconclusive"}
    reports = [l.decode("utf-8", "replace") for l in err.split(b"\n") if l.startswith(b"VERIF-HEAP:")]
    stats = STATS.findall(err)
    res = {"v": "ok", "reports": reports, "rc": rc, "stats": [tuple(int(x) for x in s) for s in stats], "err": err[-600:].decode("utf-8", "replace")}
    if runner.sanitizer_report(err):
        m = re.search(rb"(ERROR: AddressSanitizer: [^\n]*|[^\n]*runtime error:[^\n]*)", err)
        res["v"] = "violation"
        res["why"] = "sanitizer report: " + (m.group(1).decode("utf-8", "replace")[:200] if m else "?")
    elif reports:
        res["v"] = "violation"
        res["why"] = reports[0]
    elif rc is not None and rc < 0:
        res["v"] = "violation"
        res["why"] = "VM killed by %s" % runner.sig_of(rc)
    elif b"error: " in err and b"runtime error:" not in err and not stats:
        res["v"] = "not_run"
    return res


def run_case(ctx, prog, ev):
    ref = refeval.run(prog)
    src = progen.print_program(prog)
    for k, v in prog["excluded"].items():
        ev.exclude(k, v)
    if ref.kind != "normal":
        ev.cls("discarded_ref_" + ref.kind)
        return
    stride = 1 if ref.steps <= 20000 else 16
    r = run_audit(ctx, src, stride=stride)
    if r["v"] == "ok" and ev.evaluations % 4 == 0:
        r2 = run_audit(ctx, src, name="pa.nano", stride=stride * 8, asan=True)
        if r2["v"] == "violation":
            r = r2
        ev.cls("also_under_asan")
    st_ = r.get("stats") or [(0, 0, 0, 0, 0, 0, 0)]
    nontrivial = r["v"] == "ok" and (st_[0][6] >= 10 or st_[0][5] >= 2)
    ev.case(src, nontrivial)
    ev.cls("verdict_" + r["v"])
    if st_[0][5] >= 2:
        ev.cls("saw_shared_object")
    if r["v"] == "inconclusive":
        ev.inconclusive += 1
    if nontrivial and len(ev.samples) < 2 and ev.evaluations % 9 == 1:
        ev.sample({"source": src[:2500], "audits": st_[0][4], "max_indegree": st_[0][5], "max_reachable": st_[0][6]})
    if r["v"] == "violation":
        raise CaseFailure(r["why"], {"err": r["err"]})


def describe_failure(ctx, prog, cf):
    return {"src": progen.print_program(prog), "detail": cf.detail, "payload": cf.payload, "sigs": []}


def replay(path):
    ctx = make_ctx(0, "quick", {})
    src = open(path, encoding="utf-8", newline="").read()
    bad = 0
    for asan in (False, True):
        r = run_audit(ctx, src, "replay.nano", stride=1, asan=asan)
        print("replay (%s): %s %s" % ("asan" if asan else "plain", r["v"], r.get("why", "")), r.get("stats"))
        bad |= r["v"] == "violation"
    return 1 if bad else 0


def churn_job(args):
    name, idx = args
    ctx = make_ctx(500 + idx, "quick", {})
    out = {"name": name, "live": {}, "viol": None}
    for k in (10, 100, 1000):
        src = churn_program(name, k)
        r = run_audit(ctx, src, "churn.nano", stride=7, asan=(k == 100))
        if r["v"] == "violation":
            out["viol"] = (k, r["why"], src)
            return out
        if r["v"] != "ok" or not r["stats"]:
            out["viol"] = None
            out["live"][k] = None
            continue
        out["live"][k] = r["stats"][0][0]     # live objects while main's roots are still held
        out.setdefault("after_release", {})[k] = r["stats"][-1][0]
    return out


def main(tier):
    ev = Evidence(PROP, tier, "exploration", RULE)
    ctx = make_ctx(99, tier, {})
    sd = common.seed()
    nviol = 0
    for f in common.fixed_findings(PROP):
        rp = os.path.join(common.VERIF, f["replay"][PROP])
        ev.cls("fixed_regression_replayed")
        if rp.endswith(".json"):
            d = json.load(open(rp))
            res = churn_job((d["churn"], 0))
            bad = res["viol"] is not None or (res["live"].get(1000) is not None and res["live"].get(10) is not None and res["live"][1000] - res["live"][10] > 8)
        else:
            bad = run_audit(ctx, open(rp).read(), "fixed.nano")["v"] == "violation"
        if bad:
            print("C14: fixed finding %s is back" % f["id"])
            common.report_violation(PROP, rp)
            nviol += 1
    for f in common.open_findings(PROP):
        rp = os.path.join(common.VERIF, f["replay"][PROP])
        if run_audit(ctx, open(rp).read(), "known.nano")["v"] == "violation":
            common.report_known(PROP, "%s [%s]" % (f["what"], f["id"]))
            ev.known.append(f["id"])
    # churn family
    names = sorted(CHURN_BODIES)
    res = common.parallel_map(churn_job, [(n, i) for i, n in enumerate(names)])
    for r in res:
        ev.case("churn:" + r["name"], True, n=3)
        ev.cls("churn_programs", 3)
        if r["viol"]:
            k, why, src = r["viol"]
            p = common.save_replay(PROP, "churn_%s_%d.nano" % (r["name"], k), src)
            print("C14: churn %s k=%d: %s" % (r["name"], k, why))
            common.report_violation(PROP, p)
            nviol += 1
            continue
        l10, l1000 = r["live"].get(10), r["live"].get(1000)
        if l10 is None or l1000 is None:
            ev.cls("churn_not_run")
            continue
        ev.extra.setdefault("churn_live_objects", {})[r["name"]] = r["live"]
        if l1000 - l10 > 8:
            p = common.save_replay(PROP, "churn_growth_%s.json" % r["name"], json.dumps({"churn": r["name"], "live": r["live"], "source_k1000": churn_program(r["name"], 1000)}, indent=1))
            print("C14: churn %s: live objects grow with the iteration count: %s" % (r["name"], r["live"]))
            common.report_violation(PROP, p)
            nviol += 1
    ev.sample({"churn_body": "array_push_drop", "source": churn_program("array_push_drop", 10)})
    total = 12000 if tier == "quick" else 100000
    results = harness.run_workers("pbt.c14_heap", tier, total)
    for r in results:
        ev.merge(r["evidence"])
        if r["error"]:
            print("C14: worker %d harness error (not a verdict):\n%s" % (r["widx"], r["error"]), file=sys.stderr)
            ev.cls("worker_errors")
        fl = r["failure"]
        if fl:
            again = [run_audit(ctx, fl["src"], "confirm.nano", asan=("sanitizer" in fl["detail"]))["v"] for _ in range(3)]
            if not all(a == "violation" for a in again):
                ev.inconclusive += 1
                continue
            p = common.save_replay(PROP, "heap_seed%d_w%d.nano" % (sd, r["widx"]), fl["src"])
            print("C14: %s" % fl["detail"])
            common.report_violation(PROP, p)
            nviol += 1
    ev.assumptions = ["roots = operand stack (which holds the locals) and globals; references held only in C locals of the VM between instructions are not counted (they can only raise ref_count above the audited in-degree)",
                      "interned strings: the intern table is not an owner, as in the code"]
    if ev.classes.get("worker_errors"):
        ev.write()
        sys.exit(2)
    common.finish(ev, nviol)
