"""Shared driver pieces: seeds, scratch dirs, evidence, ledger, builds, violation reporting."""
import atexit
import hashlib
import json
import os
import shutil
import signal
import subprocess
import sys
import time

VERIF = os.path.dirname(os.path.dirname(os.path.abspath(__file__)))
REPO = os.environ.get("VERIF_REPO", "/repo")
BUILD = os.path.join(VERIF, "build")
NCPU = min(16, os.cpu_count() or 4)


def seed():
    try:
        return int(os.environ.get("VERIF_SEED", "0"))
    except ValueError:
        return 0


# ----------------------------------------------------------------------------- scratch
_scratch = None


def scratch():
    """Per-process scratch directory outside /repo and /verif, removed at exit."""
    global _scratch
    if _scratch is None:
        base = os.environ.get("VERIF_SCRATCH")
        if not base:
            base = "/dev/shm" if os.path.isdir("/dev/shm") and os.access("/dev/shm", os.W_OK) else "/var/tmp"
        _scratch = os.path.join(base, "nlverif.%d" % os.getpid())
        os.makedirs(_scratch, exist_ok=True)
        pid = os.getpid()

        def _rm():
            if os.getpid() == pid:
                shutil.rmtree(_scratch, ignore_errors=True)
        atexit.register(_rm)
    return _scratch


def disk_scratch():
    d = os.path.join("/var/tmp", "nlverif.%d" % os.getpid())
    os.makedirs(d, exist_ok=True)
    pid = os.getpid()

    def _rm():
        if os.getpid() == pid:
            shutil.rmtree(d, ignore_errors=True)
    atexit.register(_rm)
    return d


# ----------------------------------------------------------------------------- builds
def build(*flavours):
    out = []
    for f in flavours:
        r = subprocess.run([sys.executable, os.path.join(VERIF, "tools", "build.py"), f],
                           capture_output=True, text=True)
        if r.returncode != 0:
            sys.stderr.write(r.stdout + r.stderr)
            raise SystemExit("BUILD FAILED for flavour %s (not a property verdict)" % f)
        sys.stderr.write(r.stderr)
        out.append(r.stdout.strip().splitlines()[-1])
    return out[0] if len(out) == 1 else out


def build_probe(name, flavour="asan", extra_src=(), libs=("-lrapidcheck",), fuzzer=False):
    """Compile probes/<name>.cc against build/<flavour>/obj; returns path of the binary."""
    bdir = build(flavour)
    src = os.path.join(VERIF, "probes", name + ".cc")
    outdir = os.path.join(bdir, "probes")
    os.makedirs(outdir, exist_ok=True)
    exe = os.path.join(outdir, name)
    deps = [src] + [os.path.join(VERIF, "probes", x) for x in os.listdir(os.path.join(VERIF, "probes"))
                    if x.endswith(".h")]
    stamp = os.path.join(bdir, "tree.stamp")
    newest = max(os.path.getmtime(p) for p in deps + [stamp])
    if os.path.exists(exe) and os.path.getmtime(exe) >= newest:
        return exe
    import fcntl
    with open(exe + ".lock", "w") as lk:
        fcntl.flock(lk, fcntl.LOCK_EX)
        if os.path.exists(exe) and os.path.getmtime(exe) >= newest:
            return exe
        objs = [l.strip() for l in open(os.path.join(bdir, "objs.txt")) if l.strip()]
        san = "-fsanitize=address,undefined -fno-sanitize-recover=undefined -fno-omit-frame-pointer".split()
        if flavour == "plain":
            cxx, flags = "g++", ["-O1", "-g"]
        elif fuzzer:
            cxx, flags = "clang++", ["-O1", "-g", "-fsanitize=fuzzer,address,undefined",
                                     "-fno-sanitize-recover=undefined", "-fno-omit-frame-pointer"]
        else:
            cxx, flags = "clang++", ["-O1", "-g"] + san
        cmd = [cxx, "-std=gnu++17", "-DNANOLANG_VERIF", "-I" + os.path.join(REPO, "src"),
               "-I" + os.path.join(REPO, "src", "nanoisa"), "-I" + os.path.join(VERIF, "probes")] + flags + \
              ["-o", exe + ".tmp", src] + list(extra_src) + objs + list(libs) + ["-lm", "-lpthread", "-ldl", "-rdynamic"]
        t0 = time.time()
        r = subprocess.run(cmd, capture_output=True, text=True)
        if r.returncode != 0:
            sys.stderr.write(r.stderr[-6000:])
            raise SystemExit("PROBE BUILD FAILED: %s (not a property verdict)" % name)
        os.rename(exe + ".tmp", exe)
        sys.stderr.write("[build] probe %s (%s) in %.1fs\n" % (name, flavour, time.time() - t0))
    return exe


# ----------------------------------------------------------------------------- ledger
def load_ledger():
    p = os.path.join(VERIF, "known_findings.json")
    if not os.path.exists(p):
        return []
    with open(p) as fh:
        return json.load(fh)["findings"]


def open_findings(prop):
    return [f for f in load_ledger() if prop in f["properties"] and f["status"] == "open"]


def fixed_findings(prop):
    return [f for f in load_ledger() if prop in f["properties"] and f["status"] == "fixed"]


def gates_off(prop=None):
    """Names of generator features switched off because an open finding lists them."""
    s = set()
    for f in load_ledger():
        if f["status"] == "open" and (prop is None or prop in f["properties"] or True):
            for g in f.get("gates", []):
                s.add(g)
    return s


# ----------------------------------------------------------------------------- evidence
class Evidence:
    def __init__(self, prop, tier, level="exploration", rule=""):
        self.prop = prop
        self.tier = tier
        self.level = level
        self.rule = rule
        self.t0 = time.time()
        self.evaluations = 0
        self.nontrivial_hashes = set()
        self.nontrivial_extra = 0   # counted by probes that hash internally
        self.samples = []
        self.classes = {}
        self.excluded = {}
        self.inconclusive = 0
        self.violations = 0
        self.known = []
        self.extra = {}
        self.assumptions = []
        self.exhaustive = None

    def case(self, key=None, nontrivial=False, n=1):
        self.evaluations += n
        if nontrivial and key is not None:
            if not isinstance(key, (bytes, bytearray)):
                key = str(key).encode()
            self.nontrivial_hashes.add(hashlib.sha1(key).digest()[:10])

    def cls(self, name, n=1):
        self.classes[name] = self.classes.get(name, 0) + n

    def exclude(self, gate, n=1):
        self.excluded[gate] = self.excluded.get(gate, 0) + n

    def sample(self, s, limit=5):
        if len(self.samples) < limit:
            self.samples.append(s)

    def merge(self, d):
        """Merge a worker's partial evidence dict."""
        self.evaluations += d.get("evaluations", 0)
        for h in d.get("nontrivial_hashes", []):
            self.nontrivial_hashes.add(bytes.fromhex(h))
        self.nontrivial_extra += d.get("nontrivial_extra", 0)
        for s in d.get("samples", []):
            self.sample(s)
        for k, v in d.get("classes", {}).items():
            self.cls(k, v)
        for k, v in d.get("excluded", {}).items():
            self.exclude(k, v)
        self.inconclusive += d.get("inconclusive", 0)

    def partial(self):
        return {"evaluations": self.evaluations,
                "nontrivial_hashes": [h.hex() for h in self.nontrivial_hashes],
                "nontrivial_extra": self.nontrivial_extra,
                "samples": self.samples, "classes": self.classes, "excluded": self.excluded,
                "inconclusive": self.inconclusive}

    def write(self):
        cov = {
            "evaluations": int(self.evaluations),
            "distinct_nontrivial": int(len(self.nontrivial_hashes) + self.nontrivial_extra),
            "rule": self.rule,
            "samples": self.samples if self.samples else ["<no sample recorded>"],
            "classes": dict(sorted(self.classes.items())),
            "excluded_by_gate": self.excluded,
            "inconclusive": self.inconclusive,
            "known_findings_reported": self.known,
        }
        if self.exhaustive is not None:
            cov["exhaustive"] = self.exhaustive
        cov.update(self.extra)
        doc = {"property_id": self.prop, "tier": self.tier, "seed": seed(), "level": self.level,
               "coverage": cov, "assumptions": self.assumptions,
               "wall_s": round(time.time() - self.t0, 2), "violations": self.violations}
        os.makedirs(os.path.join(VERIF, "evidence"), exist_ok=True)
        p = os.path.join(VERIF, "evidence", self.prop + ".json")
        with open(p + ".tmp", "w") as fh:
            json.dump(doc, fh, indent=1, default=str)
        os.rename(p + ".tmp", p)
        return doc


# ----------------------------------------------------------------------------- reporting
def save_replay(prop, name, content, binary=False):
    d = os.path.join(VERIF, "replay", prop)
    os.makedirs(d, exist_ok=True)
    p = os.path.join(d, name)
    with open(p, "wb" if binary else "w") as fh:
        fh.write(content)
    return p


def report_violation(prop, path):
    print("VIOLATION property=%s replay=%s" % (prop, path), flush=True)


def report_known(prop, what):
    print("KNOWN-FINDING: property=%s %s" % (prop, what), flush=True)


def finish(ev, nviol):
    ev.violations = nviol
    ev.write()
    sys.stdout.flush()
    sys.exit(1 if nviol else 0)


# ----------------------------------------------------------------------------- subprocess
def run(cmd, timeout=20, cwd=None, env=None, stdin=None, max_out=1 << 22):
    """Run a child with closed stdin; returns (rc, stdout bytes, stderr bytes, timed_out).
    rc < 0 means killed by signal -rc."""
    try:
        p = subprocess.Popen(cmd, cwd=cwd, env=env, stdin=subprocess.DEVNULL if stdin is None else subprocess.PIPE,
                             stdout=subprocess.PIPE, stderr=subprocess.PIPE, start_new_session=True)
    except OSError as e:
        return (127, b"", str(e).encode(), False)
    try:
        out, err = p.communicate(input=stdin, timeout=timeout)
        return (p.returncode, out[:max_out], err[:max_out], False)
    except subprocess.TimeoutExpired:
        try:
            os.killpg(p.pid, signal.SIGKILL)
        except OSError:
            pass
        out, err = p.communicate()
        return (p.returncode, out[:max_out], err[:max_out], True)


def parallel_map(fn, items, procs=NCPU):
    """Ordered map over a process pool (fork)."""
    import multiprocessing as mp
    if procs <= 1 or len(items) <= 1:
        return [fn(x) for x in items]
    ctx = mp.get_context("fork")
    with ctx.Pool(min(procs, len(items))) as pool:
        return pool.map(fn, items, chunksize=1)
