"""C17 - daemon execution is transparent and concurrent clients are isolated.

Generated: batches of k in [1, 64] clients over 1-5 distinct modules (each module prints its own marker in every
line; outputs from 0 bytes to ~1 MiB; globals and heap-heavy loops; modules ending in a failed assert, an
out-of-range access or a non-zero exit status; modules with external calls, which the daemon routes through
co-processes), with arrival offsets of 0-20 ms drawn by Hypothesis.  Clients are real `nano_vm --daemon x.nvm`
processes; the daemon (`nano_vmd --foreground --no-timeout`) is started by the check on a private socket (hook H3),
in the plain build and - for a share of the batches - in the ThreadSanitizer build.
Oracle (differential per client): (stdout, exit status) of client i == standalone `nano_vm m_i.nvm`, stderr carries the
same error text, no foreign marker appears in any client's output, and the TSan daemon log has no data-race report.
"""
import json
import os
import re
import signal
import subprocess
import sys
import time

from hypothesis import strategies as st

from . import common, harness, runner
from .common import Evidence
from .harness import CaseFailure

PROP = "C17"
RULE = ("batch = (modules, assignment of k clients to modules, arrival offsets); non-trivial = k >= 8 clients with >= 2 "
        "distinct modules whose executions overlapped in time (measured from client start/end timestamps); distinct by "
        "(module parameters, assignment, offsets)")


@st.composite
def module_spec(draw, mid):
    return {"id": mid,
            "lines": draw(st.sampled_from([0, 1, 5, 40, 400, 4000, 30000])),
            "globals": draw(st.booleans()),
            "heap": draw(st.booleans()),
            "extern": draw(st.integers(0, 4)) == 0,
            "ending": draw(st.sampled_from(["exit0", "exit0", "exit", "assert", "oob"])),
            "composite": draw(st.booleans()),                            # values printed through the recursive printer
            "partial": draw(st.sampled_from([False, False, True])),     # an unterminated line is pending when the program ends / faults
            "exit": draw(st.integers(1, 255))}


@st.composite
def batch(draw, maxk):
    nm = draw(st.integers(1, 5))
    mods = [draw(module_spec(i)) for i in range(nm)]
    k = draw(st.integers(1, maxk))
    assign = [draw(st.integers(0, nm - 1)) for _ in range(k)]
    offsets = [draw(st.sampled_from([0, 0, 1, 3, 8, 20])) for _ in range(k)]
    return {"mods": mods, "assign": assign, "offsets": offsets}


def module_source(m):
    mark = "M%d" % m["id"]
    L = []
    if m["globals"]:
        L.append('let GMARK: string = "%s-g"' % mark)
        L.append("let GBASE: int = %d" % (1000 * (m["id"] + 1)))
    L.append("struct Rec { n: int, tag: string }")
    L.append("fn main() -> int {")
    L.append("    let mut i: int = 0")
    L.append("    let mut acc: int = 0")
    if m["globals"]:
        L.append("    (println GMARK)")
    L.append("    while (< i %d) {" % m["lines"])
    L.append("        set i (+ i 1)")
    if m["heap"]:
        L.append('        let r: Rec = Rec { n: i, tag: (+ "%s:" (int_to_string i)) }' % mark)
        L.append("        let a: array<string> = [r.tag, (int_to_string (* i 2))]")
        L.append("        set acc (+ acc (str_length (at a 0)))")
        L.append("        (println r.tag)")
    else:
        L.append('        (println (+ "%s " (int_to_string i)))' % mark)
    L.append("    }")
    if m["globals"]:
        L.append("    (println (+ GBASE acc))")
    if m["extern"]:
        L.append('    (println (+ "%s ext " (int_to_string (cast_int (sqrt 16.0)))))' % mark)
        L.append("    (println (is_alpha 65))")
    if m.get("composite"):
        L.append('    let tp: (int, string) = (%d, "%s-tuple")' % (m["id"] + 7, mark))
        L.append("    (println tp)")
        L.append("    let arr: array<int> = [%d, 2, 3]" % m["id"])
        L.append("    (println arr)")
        L.append('    let rec: Rec = Rec { n: %d, tag: "%s-rec" }' % (m["id"], mark))
        L.append("    (println rec)")
        L.append('    let nested: array<string> = ["%s-a", "b"]' % mark)
        L.append("    (println nested)")
    L.append('    (println "%s end")' % mark)
    if m.get("partial"):
        L.append('    (print "%s partial:")' % mark)
        L.append("    (print acc)")
    if m["ending"] == "assert":
        L.append("    assert (== acc -1)")
    elif m["ending"] == "oob":
        L.append("    let z: array<int> = [1]")
        L.append("    (println (at z (+ 5 acc)))")
    L.append("    return %d" % (m["exit"] if m["ending"] == "exit" else 0))
    L.append("}")
    L.append("shadow main { assert true }")
    return "\n".join(L) + "\n"


class Daemon:
    def __init__(self, tools, workdir, tag):
        self.tools = tools
        self.sock = os.path.join(workdir, "vmd_%s.sock" % tag)
        self.pidf = os.path.join(workdir, "vmd_%s.pid" % tag)
        self.logp = os.path.join(workdir, "vmd_%s.log" % tag)
        self.env = dict(tools.env, NANOLANG_VMD_SOCKET=self.sock, NANOLANG_VMD_PID=self.pidf,
                        TSAN_OPTIONS="halt_on_error=0:report_signal_unsafe=0", ASAN_OPTIONS="detect_leaks=0:abort_on_error=0")
        self.proc = None

    def start(self):
        for f in (self.sock, self.pidf):
            if os.path.exists(f):
                os.unlink(f)
        self.log = open(self.logp, "ab")
        self.proc = subprocess.Popen([self.tools.vmd, "--foreground", "--no-timeout"], stdin=subprocess.DEVNULL, stdout=self.log, stderr=self.log,
                                     env=self.env, cwd=os.path.dirname(self.sock), start_new_session=True)
        for _ in range(200):
            if os.path.exists(self.sock):
                return True
            if self.proc.poll() is not None:
                return False
            time.sleep(0.02)
        return False

    def alive(self):
        return self.proc is not None and self.proc.poll() is None

    def stop(self):
        if self.proc and self.proc.poll() is None:
            try:
                os.killpg(self.proc.pid, signal.SIGTERM)
            except OSError:
                pass
            try:
                self.proc.wait(timeout=5)
            except subprocess.TimeoutExpired:
                try:
                    os.killpg(self.proc.pid, signal.SIGKILL)
                except OSError:
                    pass
        self.proc = None

    def log_text(self):
        try:
            return open(self.logp, "rb").read()
        except OSError:
            return b""


class Ctx:
    pass


def make_ctx(widx, tier, opts):
    ctx = Ctx()
    ctx.plain = runner.Tools("plain")
    ctx.dir = os.path.join(common.disk_scratch(), "w%d" % widx)
    os.makedirs(ctx.dir, exist_ok=True)
    ctx.maxk = opts.get("maxk", 24)
    ctx.tsan = None
    if opts.get("tsan"):
        ctx.tsan = runner.Tools("tsan")
    ctx.daemons = {}
    ctx.case_no = 0
    return ctx


def daemon_for(ctx, flavour):
    d = ctx.daemons.get(flavour)
    if d is None or not d.alive():
        tools = ctx.tsan if flavour == "tsan" else ctx.plain
        d = Daemon(tools, ctx.dir, flavour)
        if not d.start():
            raise RuntimeError("daemon (%s) did not start: %s" % (flavour, d.log_text()[-300:]))
        ctx.daemons[flavour] = d
    return d


def strategy(ctx):
    return batch(ctx.maxk)


def norm_err(b):
    # the client prefixes errors differently from the standalone tool; keep the VM's own message
    lines = [l.strip() for l in b.decode("utf-8", "replace").split("\n") if l.strip() and not l.startswith("Warning")]
    return [re.sub(r"^(Runtime error: |runtime error: |Error: )", "", l) for l in lines]


def run_batch(ctx, c, flavour="plain"):
    d = daemon_for(ctx, flavour)
    log_off = len(d.log_text())      # the log is appended to across batches: only this batch's part is judged
    ctx.case_no += 1
    expected = {}
    nvms = {}
    for m in c["mods"]:
        src = module_source(m)
        p = runner.write_src(ctx.dir, "m%d.nano" % m["id"], src)
        nvm = p[:-5] + ".nvm"
        rc, out, err, to = ctx.plain.emit_nvm(p, nvm, ctx.dir)
        if rc != 0:
            return "machinery", "module does not compile: %s" % err[-200:], {}
        r = common.run([ctx.plain.vm, nvm], timeout=120, cwd=ctx.dir, env=ctx.plain.env)
        if r[3]:
            return "inconclusive", "standalone time-out", {}
        expected[m["id"]] = (r[0], r[1], r[2])
        nvms[m["id"]] = nvm
    client_tools = ctx.tsan if flavour == "tsan" else ctx.plain
    procs = []
    t0 = time.time()
    for i, (mi, off) in enumerate(zip(c["assign"], c["offsets"])):
        if off:
            time.sleep(off / 1000.0)
        mid = c["mods"][mi]["id"]
        p = subprocess.Popen([ctx.plain.vm, "--daemon", nvms[mid]], stdin=subprocess.DEVNULL, stdout=subprocess.PIPE, stderr=subprocess.PIPE,
                             env=d.env, cwd=ctx.dir)
        procs.append((i, mid, p, time.time()))
    results = []
    for (i, mid, p, ts) in procs:
        try:
            out, err = p.communicate(timeout=180)
        except subprocess.TimeoutExpired:
            p.kill()
            out, err = p.communicate()
            results.append((i, mid, None, out, err, ts, time.time()))
            continue
        results.append((i, mid, p.returncode, out, err, ts, time.time()))
    problems = []
    overlap = 0
    for (i, mid, rc, out, err, ts, te) in results:
        erc, eout, eerr = expected[mid]
        if rc is None:
            problems.append("client %d (module M%d) did not finish within 180 s" % (i, mid))
            continue
        for m in c["mods"]:
            if m["id"] != mid and ("M%d" % m["id"]).encode() + b" " in out or (m["id"] != mid and ("M%d:" % m["id"]).encode() in out):
                problems.append("client %d (module M%d) received output of module M%d" % (i, mid, m["id"]))
                break
        if out != eout:
            j = next((x for x in range(min(len(out), len(eout))) if out[x] != eout[x]), min(len(out), len(eout)))
            problems.append("client %d (module M%d): stdout differs from standalone at byte %d of %d (got %d bytes): %r vs %r" %
                            (i, mid, j, len(eout), len(out), out[max(0, j - 20):j + 30], eout[max(0, j - 20):j + 30]))
        elif rc != erc:
            problems.append("client %d (module M%d): exit status %s, standalone %s" % (i, mid, rc, erc))
        elif norm_err(err) != norm_err(eerr):
            problems.append("client %d (module M%d): error text differs: %r vs standalone %r" % (i, mid, norm_err(err)[:3], norm_err(eerr)[:3]))
        for (j, mid2, _rc, _o, _e, ts2, te2) in results:
            if j > i and mid2 != mid and ts2 < te and ts < te2:
                overlap += 1
    if not d.alive():
        problems.append("the daemon died during the batch: %s" % d.log_text()[-300:].decode("utf-8", "replace"))
    if flavour == "tsan":
        lg = d.log_text()[log_off:]
        if b"ThreadSanitizer: data race" in lg:
            m = re.search(rb"WARNING: ThreadSanitizer: data race[^\n]*\n(?:[^\n]*\n){0,8}", lg)
            problems.append("ThreadSanitizer reports a data race in the daemon: %s" % (m.group(0)[:400].decode("utf-8", "replace") if m else ""))
    info = {"k": len(c["assign"]), "distinct": len(set(c["assign"])), "overlap_pairs": overlap, "wall": time.time() - t0}
    return ("violation", "; ".join(problems[:3]), info) if problems else ("ok", "", info)


def run_case(ctx, c, ev):
    flavour = "tsan" if (ctx.tsan is not None and ctx.case_no % 4 == 3) else "plain"
    v, detail, info = run_batch(ctx, c, flavour)
    if v == "machinery":
        raise RuntimeError(detail)
    key = json.dumps(c, sort_keys=True)
    nontrivial = v == "ok" and info.get("k", 0) >= 8 and info.get("distinct", 0) >= 2 and info.get("overlap_pairs", 0) > 0
    ev.case(key, nontrivial)
    ev.cls("verdict_" + v)
    ev.cls("daemon_" + flavour)
    ev.cls("sessions", info.get("k", 0))
    if info.get("overlap_pairs", 0) > 0:
        ev.cls("batches_with_overlap")
    if v == "inconclusive":
        ev.inconclusive += 1
    if nontrivial and len(ev.samples) < 2:
        ev.sample({"batch": {"modules": c["mods"], "assign": c["assign"], "offsets_ms": c["offsets"]}, "overlapping_pairs": info["overlap_pairs"]})
    if v == "violation":
        raise CaseFailure(detail, {"flavour": flavour})


def describe_failure(ctx, c, cf):
    return {"src": json.dumps({"batch": c, "flavour": cf.payload.get("flavour", "plain")}), "detail": cf.detail, "payload": cf.payload, "sigs": []}


def shutdown(ctx):
    for d in ctx.daemons.values():
        d.stop()


def replay(path):
    ctx = make_ctx(0, "quick", {"tsan": True})
    d = json.load(open(path))
    try:
        v, detail, info = run_batch(ctx, d["batch"], d.get("flavour", "plain"))
    finally:
        shutdown(ctx)
    print("replay:", v, detail[:800], info)
    return 1 if v == "violation" else 0


def worker_main(args):
    """Own worker loop (a daemon per worker must be shut down at the end, which the generic harness does not do)."""
    (widx, ncases, tier, sd, opts) = args
    from hypothesis import given, settings, seed as hseed, HealthCheck, Phase
    ev = common.Evidence(PROP, tier)
    res = {"widx": widx, "failure": None, "error": None}
    ctx = None
    try:
        ctx = make_ctx(widx, tier, opts)
        state = {}
        budget = 60 if tier == "quick" else 200

        @hseed(sd * 1000 + widx)
        @settings(max_examples=ncases, database=None, deadline=None, report_multiple_bugs=False, suppress_health_check=list(HealthCheck),
                  phases=[Phase.generate, Phase.shrink])
        @given(strategy(ctx))
        def prop(c):
            if "t_fail" in state and time.time() - state["t_fail"] > budget:
                return
            try:
                run_case(ctx, c, ev)
            except CaseFailure as cf:
                state.setdefault("t_fail", time.time())
                state["last"] = (c, cf)
                raise
        try:
            prop()
        except CaseFailure:
            c, cf = state["last"]
            res["failure"] = describe_failure(ctx, c, cf)
        except Exception:
            if "last" in state:
                c, cf = state["last"]
                res["failure"] = describe_failure(ctx, c, cf)
            else:
                import traceback
                res["error"] = traceback.format_exc()[-2000:]
    except Exception:
        import traceback
        res["error"] = traceback.format_exc()[-2000:]
    finally:
        if ctx is not None:
            shutdown(ctx)
    res["evidence"] = ev.partial()
    return res


def main(tier):
    ev = Evidence(PROP, tier, "exploration", RULE)
    sd = common.seed()
    nviol = 0
    common.build("plain")
    have_tsan = True
    try:
        common.build("tsan")
    except SystemExit:
        have_tsan = False
    ctx = make_ctx(99, tier, {"tsan": have_tsan})
    try:
        for f in common.fixed_findings(PROP):
            rp = os.path.join(common.VERIF, f["replay"][PROP])
            ev.cls("fixed_regression_replayed")
            if rp.endswith(".json"):
                d = json.load(open(rp))
                v, detail, info = run_batch(ctx, d["batch"], d.get("flavour", "plain"))
            else:
                # plain .nano regression (exit status): run it as a one-client batch
                src = open(rp).read()
                p = runner.write_src(ctx.dir, "fx.nano", src)
                nvm = p[:-5] + ".nvm"
                ctx.plain.emit_nvm(p, nvm, ctx.dir)
                a = common.run([ctx.plain.vm, nvm], timeout=60, cwd=ctx.dir, env=ctx.plain.env)
                dm = daemon_for(ctx, "plain")
                b = common.run([ctx.plain.vm, "--daemon", nvm], timeout=60, cwd=ctx.dir, env=dm.env)
                v, detail = ("violation", "daemon exit %s / standalone %s" % (b[0], a[0])) if (a[0], a[1]) != (b[0], b[1]) else ("ok", "")
            if v == "violation":
                print("C17: fixed finding %s is back: %s" % (f["id"], detail[:300]))
                common.report_violation(PROP, rp)
                nviol += 1
        for f in common.open_findings(PROP):
            d = json.load(open(os.path.join(common.VERIF, f["replay"][PROP])))
            v, detail, info = run_batch(ctx, d["batch"], d.get("flavour", "plain"))
            if v == "violation":
                common.report_known(PROP, "%s [%s]" % (f["what"], f["id"]))
                ev.known.append(f["id"])
    finally:
        shutdown(ctx)
    total = 160 if tier == "quick" else 1500
    nworkers = 8
    import multiprocessing as mp
    per = max(1, (total + nworkers - 1) // nworkers)
    jobs = [(w, per, tier, sd, {"tsan": have_tsan, "maxk": 24 if tier == "quick" else 64}) for w in range(nworkers)]
    with mp.get_context("fork").Pool(nworkers) as pool:
        results = pool.map(worker_main, jobs, chunksize=1)
    for r in results:
        ev.merge(r["evidence"])
        if r["error"]:
            print("C17: worker %d harness error (not a verdict):\n%s" % (r["widx"], r["error"]), file=sys.stderr)
            ev.cls("worker_errors")
        fl = r["failure"]
        if fl:
            d = json.loads(fl["src"])
            cctx = make_ctx(98, tier, {"tsan": have_tsan})
            try:
                again = [run_batch(cctx, d["batch"], d["flavour"])[0] for _ in range(3)]
            finally:
                shutdown(cctx)
            if sum(1 for a in again if a == "violation") < 2:
                ev.inconclusive += 1
                ev.cls("unconfirmed_failure")
                continue
            p = common.save_replay(PROP, "batch_seed%d_w%d.json" % (sd, r["widx"]), json.dumps(d, indent=1))
            print("C17: %s" % fl["detail"][:900])
            common.report_violation(PROP, p)
            nviol += 1
    ev.extra["tsan_flavour_available"] = have_tsan
    ev.assumptions = ["the schedule space is sampled: the check owns arrival offsets only; ThreadSanitizer reports races on executed paths only",
                      "a failure must reproduce in 2 of 3 re-runs of the shrunk batch to count (schedule-dependent failures that do not are counted as inconclusive)"]
    if ev.classes.get("worker_errors"):
        ev.write()
        sys.exit(2)
    common.finish(ev, nviol)
