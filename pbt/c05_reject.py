"""C05 - ill-formed programs are never turned into a runnable artifact.

Generated: a well-typed progen program whose main and every shadow body start by printing a sentinel, plus ONE
rule-violating snippet from a catalogue, inserted at a drawn position (top of main, inside a nested block, inside a
loop body, inside another function, inside a shadow body, inside a helper used only there).  Every snippet is
self-contained and ill-formed by a rule the specification states (sections 3.3, 4.4-4.6, 5.1, 5.2, 5.3, 6.2, 6.3,
6.4, 8.4 and the affine-types guide), so the mutant is ill-formed by construction.
Oracle, for each tool t in {nanoc -o out, nano_virt --run, nano_virt --emit-nvm -o out.nvm, nano_virt -o out}:
exit status != 0, a diagnostic is printed, the (fresh) output path does not exist afterwards, and the sentinel is
absent from stdout (nothing of the program - including its shadow blocks - was executed).
"""
import json
import os
import sys

from hypothesis import strategies as st

from . import common, harness, progen, runner
from .common import Evidence
from .harness import CaseFailure

PROP = "C05"
RULE = ("well-typed generated program + one catalogue snippet (rule) at one placement; every case is ill-formed by "
        "construction. non-trivial = placement other than the top of main (nested block / loop / other function / "
        "shadow body); distinct by (rule, variant, placement, hash of the base program)")
SENTINEL = "SENTINEL-C05"

# rule -> list of (variant name, statements, extra top-level declarations)
HELPERS = '''
fn c05_id(a: int) -> int {
    return (+ a 1)
}
shadow c05_id {
    (println "%s")
    assert (== (c05_id 1) 2)
}
struct C05P { x: int, y: int }
enum C05E { A = 1, B = 2 }
union C05U { Ok { v: int }, Err { msg: string } }
''' % SENTINEL

FNSIG_DECLS = ("fn c05_two_is(a: int, b: string) -> int {\n    return a\n}\nshadow c05_two_is { assert true }\n"
               "fn c05_two_si(a: string, b: int) -> int {\n    return b\n}\nshadow c05_two_si { assert true }\n"
               "fn c05_one_s(a: string) -> int {\n    return 1\n}\nshadow c05_one_s { assert true }\n"
               "fn c05_one_i(a: int) -> int {\n    return a\n}\nshadow c05_one_i { assert true }\n"
               "fn c05_one_b(a: bool) -> int {\n    return 2\n}\nshadow c05_one_b { assert true }\n"
               "fn c05_ret_s(a: int, b: int) -> string {\n    return \"x\"\n}\nshadow c05_ret_s { assert true }\n"
               "fn c05_apply2(g: fn(int, int) -> int, v: int) -> int {\n    return (g v v)\n}\nshadow c05_apply2 { assert true }\n"
               "fn c05_apply1(g: fn(int) -> int, v: int) -> int {\n    return (g v)\n}\nshadow c05_apply1 { assert true }\n")

CATALOGUE = {
    "operand_type": [
        ("int_plus_string", ['let c05_a: int = (+ 1 "s")'], ""),
        ("bool_times_int", ["(println (* true 2))"], ""),
        ("infix_int_plus_string", ['let c05_a: int = 1 + "s"'], ""),
        ("not_on_int", ["let c05_a: bool = (not 5)"], ""),
        ("and_on_ints", ["let c05_a: bool = (and 1 2)"], ""),
        ("neg_string", ['let c05_a: int = (- "s")'], ""),
        ("compare_int_string", ['let c05_a: bool = (== 1 "s")'], ""),
        ("nested_in_unused_operand", ['(println (c05_id (+ 1 (* 2 "s"))))'], ""),
    ],
    "argument_type": [
        ("string_for_int", ['(println (c05_id "s"))'], ""),
        ("bool_for_int", ["(println (c05_id true))"], ""),
        ("float_for_int", ["(println (c05_id 1.5))"], ""),
        ("builtin_str_length_of_int", ["(println (str_length 5))"], ""),
    ],
    "arity": [
        ("user_fn_too_many", ["(println (c05_id 1 2))"], ""),
        ("user_fn_too_few", ["(println (c05_id))"], ""),
        ("builtin_too_many", ['(println (str_length "a" "b"))'], ""),
        ("builtin_too_few", ["(println (abs))"], ""),
    ],
    "unknown_name": [
        ("unknown_variable", ["(println c05_undefined)"], ""),
        ("unknown_function", ["(println (c05_nofn 1))"], ""),
        ("use_before_declaration", ["(println c05_late)", "let c05_late: int = 1"], ""),
        ("set_unknown", ["set c05_undefined 1"], ""),
    ],
    "out_of_scope": [
        ("block_local_after_block", ["if true {", "    let c05_inner: int = 1", "    (println c05_inner)", "}", "(println c05_inner)"], ""),
        ("other_functions_parameter", ["(println a)"], ""),
    ],
    "immutable": [
        ("set_immutable_let", ["let c05_im: int = 1", "set c05_im 2"], ""),
        ("set_parameter", ["(println (c05_setp 1))"], "fn c05_setp(q: int) -> int {\n    set q 2\n    return q\n}\nshadow c05_setp { assert true }\n"),
    ],
    "missing_return": [
        ("no_else_path", ["(println (c05_mr 1))"], "fn c05_mr(q: int) -> int {\n    if (> q 0) {\n        return 1\n    }\n}\nshadow c05_mr { assert true }\n"),
        ("no_return_at_all", ["(println (c05_mr2 1))"], "fn c05_mr2(q: int) -> int {\n    (println q)\n}\nshadow c05_mr2 { assert true }\n"),
    ],
    "return_type": [
        ("string_for_int", ["(println (c05_rt))"], 'fn c05_rt() -> int {\n    return "s"\n}\nshadow c05_rt { assert true }\n'),
        ("call_result_of_other_type", ["(println (c05_rt2))"], 'fn c05_rt2() -> string {\n    return (c05_id 1)\n}\nshadow c05_rt2 { assert true }\n'),
        ("value_in_void", ["(c05_rt3)"], "fn c05_rt3() -> void {\n    return 1\n}\nshadow c05_rt3 { assert true }\n"),
    ],
    "condition_type": [
        ("if_int", ["if 1 {", "    (println 1)", "}"], ""),
        ("while_string", ['while "s" {', "    break", "}"], ""),
        ("if_call_int", ["if (c05_id 1) {", "    (println 1)", "}"], ""),
    ],
    "let_type": [
        ("string_into_int", ['let c05_q: int = "s"'], ""),
        ("int_into_string", ["let c05_q: string = 5"], ""),
        ("int_into_float", ["let c05_q: float = 1"], ""),
        ("bool_into_int", ["let c05_q: int = true"], ""),
        ("set_with_other_type", ["let mut c05_q: int = 1", 'set c05_q "s"'], ""),
    ],
    "field_or_variant": [
        ("unknown_field_read", ["let c05_p: C05P = C05P { x: 1, y: 2 }", "(println c05_p.z)"], ""),
        ("unknown_field_in_literal", ["let c05_p: C05P = C05P { x: 1, y: 2, z: 3 }", "(println c05_p.x)"], ""),
        ("missing_field_in_literal", ["let c05_p: C05P = C05P { x: 1 }", "(println c05_p.x)"], ""),
        ("unknown_enum_variant", ["let c05_e: C05E = C05E.Nope", "(println (== c05_e C05E.A))"], ""),
        ("unknown_union_variant", ["let c05_u: C05U = C05U.Nope { v: 1 }"], ""),
        ("field_of_other_variant", ["let c05_u: C05U = C05U.Ok { v: 1 }", "match c05_u {", "    Ok(o) => { (println o.msg) }", "    Err(e) => { (println e.msg) }", "}"], ""),
    ],
    "fn_signature": [
        (name, stmts, FNSIG_DECLS) for (name, stmts) in [
            ("arg_last_param_differs", ["(println (c05_apply2 c05_two_is 1))"]),
            ("arg_first_param_differs", ["(println (c05_apply2 c05_two_si 1))"]),
            ("arg_only_param_differs", ["(println (c05_apply1 c05_one_s 1))"]),
            ("arg_return_differs", ["(println (c05_apply2 c05_ret_s 1))"]),
            ("arg_arity_differs", ["(println (c05_apply2 c05_one_i 1))"]),
            ("let_last_param_differs", ["let c05_h: fn(int, int) -> int = c05_two_is"]),
            ("let_only_param_differs", ["let c05_h: fn(int) -> int = c05_one_s"]),
            ("let_return_differs", ["let c05_h: fn(int, int) -> int = c05_ret_s"]),
            ("let_arity_differs", ["let c05_h: fn(int, int) -> int = c05_one_i"]),
            ("arg_bool_for_int_param", ["(println (c05_apply1 c05_one_b 1))"]),
        ]
    ],
    "consumed_resource": [
        ("use_after_move", ["let c05_h: C05H = unsafe { (c05_open 1) }", "unsafe { (c05_close c05_h) }", "unsafe { (c05_close c05_h) }"],
         "resource struct C05H { fd: int }\nextern fn c05_open(n: int) -> C05H\nextern fn c05_close(h: C05H) -> void\n"),
    ],
    "extern_outside_unsafe": [
        ("statement", ["(println (labs -5))"], "extern fn labs(x: int) -> int\n"),
        ("in_return_expression", ["(println (c05_ext 1))"], "extern fn labs(x: int) -> int\nfn c05_ext(q: int) -> int {\n    return (labs q)\n}\n"),
        # the position the type checker does check: an extern call that is a statement of its own
        ("bare_statement", ["(labs -5)"], "extern fn labs(x: int) -> int\n"),
        ("bare_statement_after_unsafe_block", ["unsafe { (labs 1) }", "(labs 2)"], "extern fn labs(x: int) -> int\n"),
        ("bare_statement_after_unsafe_block_with_set", ["let mut c05_r: int = 0", "unsafe { set c05_r (labs 1) }", "(labs 2)"], "extern fn labs(x: int) -> int\n"),
        ("bare_statement_after_unsafe_in_earlier_function", ["(labs 2)"],
         "extern fn labs(x: int) -> int\nfn c05_u(q: int) -> int {\n    let mut r: int = 0\n    unsafe { set r (labs q) }\n    return r\n}\nshadow c05_u { assert true }\n"),
        ("bare_statement_inside_nested_block_after_unsafe", ["unsafe { (labs 1) }", "if true {", "    (labs 2)", "}"], "extern fn labs(x: int) -> int\n"),
    ],
}
# operator typing matrix (specification 4.4-4.6, 8.4): every binary operator x every ordered pair of scalar operand
# types x prefix/infix x variable/literal operands; the entries the tables do not allow are ill-formed
MATRIX_TYPES = {"int": ("c05_vi", "7"), "float": ("c05_vf", "2.5"), "bool": ("c05_vb", "true"), "string": ("c05_vs", '"s"')}
MATRIX_LETS = ["let c05_vi: int = 7", "let c05_vf: float = 2.5", "let c05_vb: bool = true", 'let c05_vs: string = "s"']
ARI, CMP, EQ, LOG = ["+", "-", "*", "/", "%"], ["<", "<=", ">", ">="], ["==", "!="], ["and", "or"]


def matrix_allowed(op, l, r):
    if op in ARI:
        if op == "%":
            return l == r == "int"
        if op == "+" and l == r == "string":
            return True             # string concatenation with + is documented in STDLIB / QUICK_REFERENCE
        return l == r and l in ("int", "float")
    if op in CMP:
        return l == r and l in ("int", "float")
    if op in EQ:
        return l == r
    return l == r == "bool"


def matrix_variants():
    out = []
    for op in ARI + CMP + EQ + LOG:
        for l in MATRIX_TYPES:
            for r in MATRIX_TYPES:
                if matrix_allowed(op, l, r):
                    continue
                for form in ("prefix", "infix"):
                    for lk, rk in (("var", "lit"), ("lit", "var"), ("var", "var"), ("lit", "lit")):
                        a = MATRIX_TYPES[l][0 if lk == "var" else 1]
                        b = MATRIX_TYPES[r][0 if rk == "var" else 1]
                        e = "(%s %s %s)" % (op, a, b) if form == "prefix" else "(%s %s %s)" % (a, op, b)
                        out.append(("%s|%s|%s|%s|%s%s" % (op, l, r, form, lk, rk), MATRIX_LETS + ["(println %s)" % e], ""))
    return out


CATALOGUE["operator_matrix"] = matrix_variants()
PLACEMENTS = ["main_top", "main_nested_block", "main_loop_body", "other_function", "shadow_body", "main_end"]


@st.composite
def case(draw, features, rules):
    prog = draw(progen.programs(features=features, size=2))
    rule = draw(st.sampled_from(rules))
    variants = CATALOGUE[rule]
    variant = variants[draw(st.integers(0, len(variants) - 1))]
    placement = draw(st.sampled_from(PLACEMENTS))
    return {"prog": prog, "rule": rule, "variant": variant[0], "placement": placement}


def indent(lines, n):
    return [("    " * n) + l for l in lines]


def build(c):
    """Source text of the mutant."""
    prog = c["prog"]
    rule, vname = c["rule"], c["variant"]
    _, stmts, decls = next(v for v in CATALOGUE[rule] if v[0] == vname)
    sent = ("println", ("str", SENTINEL.encode()))
    p2 = dict(prog)
    funcs = []
    for f in prog["funcs"]:
        f2 = dict(f)
        if f["name"] == "main":
            f2["body"] = [sent] + list(f["body"])
        funcs.append(f2)
    p2["funcs"] = funcs
    shadows = {f["name"]: [sent, ("assert", ("bool", True))] for f in funcs}
    src = progen.print_program(p2, shadows=shadows)
    lines = src.split("\n")
    place = c["placement"]
    snippet = list(stmts)
    # locate main
    mi = next(i for i, l in enumerate(lines) if l.startswith("fn main("))
    mend = next(i for i in range(mi, len(lines)) if lines[i] == "}")
    extra_fn = ""
    if place == "main_top":
        ins, at = indent(snippet, 1), mi + 2           # after the sentinel println
    elif place == "main_nested_block":
        ins, at = ["    if true {", "        if true {"] + indent(snippet, 3) + ["        }", "    }"], mi + 2
    elif place == "main_loop_body":
        ins, at = ["    for c05_i in (range 0 2) {"] + indent(snippet, 2) + ["    }"], mi + 2
    elif place == "main_end":
        ins, at = indent(snippet, 1), mend - 1          # before `return N`
    elif place == "other_function":
        extra_fn = "fn c05_host(a: int) -> int {\n" + "\n".join(indent(snippet, 1)) + "\n    return a\n}\nshadow c05_host {\n    (println \"%s\")\n    assert true\n}\n" % SENTINEL
        ins, at = ["    (println (c05_host 1))"], mi + 2
    else:  # shadow_body
        extra_fn = "fn c05_host(a: int) -> int {\n    return a\n}\nshadow c05_host {\n    (println \"%s\")\n" % SENTINEL + "\n".join(indent(snippet, 1)) + "\n    assert true\n}\n"
        ins, at = ["    (println (c05_host 1))"], mi + 2
    lines[at:at] = ins
    body = "\n".join(lines)
    # helper declarations go first (types and functions used by snippets)
    return HELPERS + decls + extra_fn + body


class Ctx:
    pass


def make_ctx(widx, tier, opts):
    ctx = Ctx()
    ctx.tools = runner.Tools("plain")
    ctx.dir = os.path.join(common.scratch(), "w%d" % widx)
    os.makedirs(ctx.dir, exist_ok=True)
    ctx.features, _g = harness.features_for(PROP)
    ctx.features = ctx.features - {"long_strings"}
    ctx.open = common.open_findings(PROP)
    ctx.gated_variants = set()
    for f in ctx.open:
        for gv in f.get("c05_variants", []):
            ctx.gated_variants.add(gv)
    ctx.gated_placements = set()
    for f in ctx.open:
        for gp in f.get("c05_placements", []):
            ctx.gated_placements.add(gp)
    ctx.rules = sorted(CATALOGUE)
    ctx.tier = tier
    return ctx


def strategy(ctx):
    return case(ctx.features, ctx.rules)


TOOLS = ["nanoc", "virt_run", "virt_emit", "virt_wrapper"]


def run_tools(ctx, src, name="m.nano", tools=TOOLS):
    p = runner.write_src(ctx.dir, name, src)
    problems = []
    for t in tools:
        out = os.path.join(ctx.dir, "out_%s_%d" % (t, os.getpid())) + (".nvm" if t == "virt_emit" else "")
        if os.path.exists(out):
            os.unlink(out)
        if t == "nanoc":
            cmd = [ctx.tools.nanoc, p, "-o", out]
        elif t == "virt_run":
            cmd = [ctx.tools.virt, p, "--run"]
        elif t == "virt_emit":
            cmd = [ctx.tools.virt, p, "--emit-nvm", "-o", out]
        else:
            cmd = [ctx.tools.virt, p, "-o", out]
        rc, o, e, to = common.run(cmd, timeout=120, cwd=ctx.dir, env=ctx.tools.env)
        made = os.path.exists(out)
        if made:
            os.unlink(out)
        if to:
            problems.append((t, "inconclusive"))
            continue
        why = []
        if rc == 0:
            why.append("exit status 0")
        if rc is not None and rc < 0:
            why.append("killed by signal %d" % -rc)
        if made and t != "virt_run":
            why.append("an output artifact was written")
        if SENTINEL.encode() in o:
            why.append("the program (or one of its shadow blocks) was executed")
        if not (e.strip() or o.strip()):
            why.append("no diagnostic")
        if why:
            problems.append((t, "; ".join(why)))
    return problems


def variant_key(c):
    return "%s/%s" % (c["rule"], c["variant"])


def is_gated(ctx, key):
    import fnmatch
    return any(key == g or fnmatch.fnmatchcase(key, g) for g in ctx.gated_variants)


def matrix_job(args):
    (widx, items) = args
    ctx = make_ctx(200 + widx, "quick", {})
    res = []
    for (vname, pl) in items:
        src = minimal_program("operator_matrix", vname, pl)
        problems = [p for p in run_tools(ctx, src, "mx.nano") if p[1] != "inconclusive"]
        res.append((vname, pl, problems, src if problems else None))
    return res


def run_case(ctx, c, ev):
    key = variant_key(c)
    if is_gated(ctx, key):
        ev.exclude("known:" + (key if not key.startswith("operator_matrix/") else "operator_matrix"))
        return
    if c["placement"] in ctx.gated_placements:
        ev.exclude("known_placement:" + c["placement"])
        return
    for k, v in c["prog"]["excluded"].items():
        ev.exclude(k, v)
    src = build(c)
    problems = run_tools(ctx, src)
    real = [p for p in problems if p[1] != "inconclusive"]
    ev.case(key + c["placement"] + harness.src_hash(src), c["placement"] != "main_top" and not real)
    ev.cls("rule_" + c["rule"])
    ev.cls("placement_" + c["placement"])
    for p in problems:
        if p[1] == "inconclusive":
            ev.inconclusive += 1
    if not real and len(ev.samples) < 3 and ev.evaluations % 23 == 5:
        ev.sample({"rule": key, "placement": c["placement"], "source_tail": src[-900:]})
    if real:
        raise CaseFailure("%s at %s: %s: %s" % (key, c["placement"], real[0][0], real[0][1]), {"key": key, "placement": c["placement"], "problems": real})


def describe_failure(ctx, c, cf):
    return {"src": build(c), "detail": cf.detail, "payload": cf.payload, "sigs": []}


def replay(path):
    ctx = make_ctx(0, "quick", {})
    ctx.tools.prewarm(ctx.dir)
    src = open(path, encoding="utf-8", newline="").read()
    problems = run_tools(ctx, src, "replay.nano")
    for p in problems:
        print("replay: %s: %s" % p)
    if not problems:
        print("replay: rejected by all four tools")
    return 1 if [p for p in problems if p[1] != "inconclusive"] else 0


def minimal_program(rule, vname, placement="main_top"):
    base = {"structs": [], "enums": [], "unions": [], "globals": [], "features": {}, "excluded": {},
            "funcs": [{"name": "main", "params": [], "ret": "int", "recursive": False, "body": [("return", ("int", 0))]}]}
    return build({"prog": base, "rule": rule, "variant": vname, "placement": placement})


def main(tier):
    ev = Evidence(PROP, tier, "exploration", RULE)
    ctx = make_ctx(99, tier, {})
    ctx.tools.prewarm(ctx.dir)
    nviol = 0
    import fnmatch
    for f in ctx.open:
        rp = os.path.join(common.VERIF, f["replay"][PROP])
        problems = []
        if rp.endswith(".nano"):
            problems = [p for p in run_tools(ctx, open(rp, encoding="utf-8", newline="").read(), "known.nano") if p[1] != "inconclusive"]
        # an entry that gates catalogue variants is also reproduced through exactly those variants (any placement)
        for gv in f.get("c05_variants", []):
            if problems:
                break
            rule, _, vpat = gv.partition("/")
            for (vname, _s, _d) in CATALOGUE.get(rule, []):
                if problems or not (vname == vpat or fnmatch.fnmatchcase(vname, vpat)):
                    continue
                for pl in PLACEMENTS:
                    problems = [p for p in run_tools(ctx, minimal_program(rule, vname, pl), "known.nano") if p[1] != "inconclusive"]
                    if problems:
                        break
                if rule == "operator_matrix":
                    break           # one representative entry per pattern
        if problems:
            common.report_known(PROP, "%s [%s]" % (f["what"], f["id"]))
            ev.known.append(f["id"])
        else:
            print("note: known finding %s no longer reproduces" % f["id"])
    for f in common.fixed_findings(PROP):
        rp = os.path.join(common.VERIF, f["replay"][PROP])
        ev.cls("fixed_regression_replayed")
        problems = [p for p in run_tools(ctx, open(rp, encoding="utf-8", newline="").read(), "fixed.nano") if p[1] != "inconclusive"]
        if problems:
            print("C05: fixed finding %s is back: %s: %s" % ((f["id"],) + problems[0]))
            common.report_violation(PROP, rp)
            nviol += 1
    # exhaustive pass over the catalogue at every placement on a minimal base program
    seen_viol = set()
    # operator matrix: every ill-typed entry at the top of main and at one other placement, in parallel
    import zlib
    items = []
    for (vname, _s, _d) in CATALOGUE["operator_matrix"]:
        key = "operator_matrix/" + vname
        if is_gated(ctx, key):
            ev.exclude("known:operator_matrix", 2)
            continue
        others = [pl for pl in PLACEMENTS[1:] if pl not in ctx.gated_placements]
        items.append((vname, "main_top"))
        if others:
            items.append((vname, others[zlib.crc32(vname.encode()) % len(others)]))
    chunks = [items[i::common.NCPU] for i in range(common.NCPU)]
    for lst in common.parallel_map(matrix_job, [(i, c) for i, c in enumerate(chunks) if c]):
        for (vname, pl, problems, src) in lst:
            key = "operator_matrix/" + vname
            ev.case(key + pl, pl != "main_top" and not problems)
            ev.cls("operator_matrix_cases")
            root = "operator_matrix/" + "|".join(vname.split("|")[:3])
            if problems and root not in seen_viol:
                seen_viol.add(root)
                p = common.save_replay(PROP, "matrix_%s_%s.nano" % (vname.replace("|", "_").replace("%", "mod").replace("/", "div").replace("<", "lt").replace(">", "gt").replace("=", "eq").replace("*", "mul").replace("+", "plus").replace("!", "not"), pl), src)
                print("C05: %s at %s: %s: %s" % (key, pl, problems[0][0], problems[0][1]))
                common.report_violation(PROP, p)
                nviol += 1
    for rule, variants in sorted(CATALOGUE.items()):
        if rule == "operator_matrix":
            continue
        for (vname, _s, _d) in variants:
            key = "%s/%s" % (rule, vname)
            if is_gated(ctx, key):
                ev.exclude("known:" + key, len(PLACEMENTS))
                continue
            for pl in PLACEMENTS:
                if pl in ctx.gated_placements:
                    ev.exclude("known_placement:" + pl)
                    continue
                src = minimal_program(rule, vname, pl)
                problems = [p for p in run_tools(ctx, src, "cat.nano") if p[1] != "inconclusive"]
                ev.case(key + pl, pl != "main_top" and not problems)
                ev.cls("catalogue_cases")
                if problems and key not in seen_viol:
                    seen_viol.add(key)
                    p = common.save_replay(PROP, "catalogue_%s_%s_%s.nano" % (rule, vname, pl), src)
                    print("C05: %s at %s: %s: %s" % (key, pl, problems[0][0], problems[0][1]))
                    common.report_violation(PROP, p)
                    nviol += 1
    total = 6000 if tier == "quick" else 40000
    results = harness.run_workers("pbt.c05_reject", tier, total)
    for r in results:
        ev.merge(r["evidence"])
        if r["error"]:
            print("C05: worker %d harness error (not a verdict):\n%s" % (r["widx"], r["error"]), file=sys.stderr)
            ev.cls("worker_errors")
        fl = r["failure"]
        if fl:
            fk = fl["payload"].get("key") or ""
            if fk.startswith("operator_matrix/"):
                fk = "operator_matrix/" + "|".join(fk[len("operator_matrix/"):].split("|")[:3])
            if fk in seen_viol:
                continue
            again = [bool([p for p in run_tools(ctx, fl["src"], "confirm.nano") if p[1] != "inconclusive"]) for _ in range(2)]
            if not all(again):
                ev.inconclusive += 1
                continue
            seen_viol.add(fk)
            p = common.save_replay(PROP, "mutant_seed%d_w%d.nano" % (common.seed(), r["widx"]), fl["src"])
            print("C05: %s" % fl["detail"])
            common.report_violation(PROP, p)
            nviol += 1
    ev.extra["catalogue_rules"] = {k: ([v[0] for v in vs] if k != "operator_matrix" else "%d generated entries" % len(vs)) for k, vs in CATALOGUE.items()}
    ev.extra["gated_variants"] = sorted(ctx.gated_variants)
    if ev.classes.get("worker_errors"):
        ev.write()
        sys.exit(2)
    common.finish(ev, nviol)
