"""C09 - the front end is total: every input ends in acceptance or a diagnostic.

Three generators, one oracle.
  1. libFuzzer target probes/fuzz_frontend.cc (in-process tokenize -> parse_program -> process_imports -> type_check,
     ASan+UBSan, state reset per input), started from an empty corpus and from the repository's .nano files, with a
     keyword dictionary; crash-/timeout- artifacts are re-validated through the subprocess oracle below.
  2. Hypothesis token-level mutation of valid generated programs: delete / duplicate / swap / replace tokens, truncate
     at a token boundary, splice two programs, unbalance brackets, inject keywords in expression position, raw bytes.
  3. Nesting ramps of every recursive construct to depths 10 .. 100 000.
Oracle (the observable the property names): `nano_virt <file> --emit-nvm -o out` built with ASan/UBSan exits 0 or 1,
exit 1 comes with a diagnostic on stderr, no signal, no sanitizer report, and finishes within the time budget (a
suspected overrun is re-run three times with ten times the budget before it counts).
"""
import glob
import json
import os
import re
import shutil
import subprocess
import sys
import time

from hypothesis import strategies as st

from . import common, harness, progen, runner
from .common import Evidence
from .harness import CaseFailure

PROP = "C09"
RULE = ("inputs: (1) coverage-guided byte mutations (libFuzzer, in-process), (2) token-level mutants of generated valid "
        "programs, (3) nesting ramps. non-trivial = the input is not a valid generated program or corpus file and lexes "
        "to >= 5 tokens (mutants/ramps: by construction; fuzzer: executions counted from the fuzzer's own statistics, "
        "distinct = corpus units it kept); distinct mutants by hash of the text")

KEYWORDS = ["fn", "let", "mut", "set", "if", "else", "cond", "while", "for", "in", "return", "break", "continue", "assert",
            "shadow", "struct", "enum", "union", "match", "import", "from", "as", "pub", "extern", "unsafe", "resource",
            "opaque", "module", "use", "requires", "ensures", "array", "int", "bool", "string", "float", "void", "u8",
            "true", "false", "and", "or", "not", "range", "println", "(", ")", "{", "}", "[", "]", "<", ">", "->", "=>",
            ":", ",", ".", "=", "==", "::", "+", "-", "*", "/", "%", "\"", "'", "#", "0", "-1", "9223372036854775808", "1.5",
            "T_S1", "Result", "List<int>", "HashMap<string,int>", "fn(int) -> int", "\\", "\x00", "\xff"]
TOKEN_RE = re.compile(r'"(?:\\.|[^"\\])*"|[A-Za-z_][A-Za-z0-9_]*|-?\d+\.\d+|-?\d+|==|!=|<=|>=|->|=>|::|\s+|.', re.S)


def tokens_of(src):
    return [t for t in TOKEN_RE.findall(src)]


# Valid programs over features the typed generator does not produce (generics, contracts, closures, collections,
# extern/unsafe, tuple results): starting points for the token-level mutations, and run unmutated as well
FEATURE_SEEDS = [
    # generic union with type-parameter and primitive fields, read through match bindings
    'union Outcome<T, E> {\n    Good { value: T },\n    Bad { code: int, error: E }\n}\nfn classify(r: Outcome<int, string>) -> int {\n    match r {\n        Good(g) => { return g.value }\n        Bad(b) => {\n            (println b.error)\n            return b.code\n        }\n    }\n}\nshadow classify { assert (== (classify Outcome<int, string>.Good { value: 4 }) 4) }\nfn main() -> int {\n    (println (classify Outcome<int, string>.Bad { code: 7, error: "e" }))\n    return 0\n}\nshadow main { assert true }\n',
    # generic union instantiated twice, returned from a function
    'union Maybe<T> {\n    Some { v: T },\n    None { pad: int }\n}\nfn first(a: array<int>) -> Maybe<int> {\n    if (> (array_length a) 0) {\n        return Maybe<int>.Some { v: (at a 0) }\n    }\n    return Maybe<int>.None { pad: 0 }\n}\nshadow first { assert true }\nfn name(b: bool) -> Maybe<string> {\n    if b {\n        return Maybe<string>.Some { v: "yes" }\n    }\n    return Maybe<string>.None { pad: 1 }\n}\nshadow name { assert true }\nfn main() -> int {\n    let m: Maybe<int> = (first [3, 4])\n    match m {\n        Some(s) => { (println s.v) }\n        None(n) => { (println n.pad) }\n    }\n    let q: Maybe<string> = (name true)\n    match q {\n        Some(s) => { (println s.v) }\n        None(n) => { (println n.pad) }\n    }\n    return 0\n}\nshadow main { assert true }\n',
    # contracts with struct and tuple results
    'struct P { x: int, y: int }\nfn mk(a: int) -> P\n    requires (>= a 0)\n    ensures (== result.x a)\n{\n    return P { x: a, y: (* a 2) }\n}\nshadow mk { assert (== (mk 2).y 4) }\nfn pair(a: int) -> (int, string)\n    ensures (== result.0 a)\n{\n    return (a, "s")\n}\nshadow pair { assert true }\nfn inc(a: int) -> int\n    requires (< a 100)\n    ensures (> result a)\n{\n    (+ a 1)\n}\nshadow inc { assert (== (inc 1) 2) }\nfn main() -> int {\n    (println (mk 3).x)\n    let t: (int, string) = (pair 5)\n    (println t.1)\n    (println (inc 7))\n    return 0\n}\nshadow main { assert true }\n',
    # first-class functions: values, parameters, results
    'fn dbl(x: int) -> int {\n    return (* x 2)\n}\nshadow dbl { assert (== (dbl 2) 4) }\nfn pick(b: bool) -> fn(int) -> int {\n    return dbl\n}\nshadow pick { assert true }\nfn twice(g: fn(int) -> int, v: int) -> int {\n    return (g (g v))\n}\nshadow twice { assert (== (twice dbl 1) 4) }\nfn label(a: int, s: string) -> string {\n    return (+ s (int_to_string a))\n}\nshadow label { assert true }\nfn main() -> int {\n    let h: fn(int) -> int = (pick true)\n    (println (h 5))\n    let l: fn(int, string) -> string = label\n    (println (l 1 "n"))\n    (println (twice h 3))\n    return 0\n}\nshadow main { assert true }\n',
    # collections: HashMap, array builtins with function arguments
    'fn is_even(x: int) -> bool {\n    return (== (% x 2) 0)\n}\nshadow is_even { assert (is_even 2) }\nfn add(a: int, b: int) -> int {\n    return (+ a b)\n}\nshadow add { assert (== (add 1 2) 3) }\nfn main() -> int {\n    let hm: HashMap<string, int> = (map_new)\n    (map_put hm "a" 1)\n    (map_put hm "b" 2)\n    (println (map_get hm "b"))\n    (println (map_has hm "zz"))\n    (println (map_length hm))\n    let xs: array<int> = [1, 2, 3, 4]\n    let ev: array<int> = (filter xs is_even)\n    (println (array_length ev))\n    (println (reduce xs 0 add))\n    return 0\n}\nshadow main { assert true }\n',
    # extern / unsafe / opaque-free FFI and bstring
    'extern fn labs(x: int) -> int\nextern fn strlen(s: string) -> int\nfn mag(x: int) -> int {\n    let mut r: int = 0\n    unsafe {\n        set r (labs x)\n    }\n    return r\n}\nshadow mag { assert (== (mag -3) 3) }\nfn main() -> int {\n    (println (mag -9))\n    let mut n: int = 0\n    unsafe { set n (strlen "four") }\n    (println n)\n    let bs: array<u8> = (bytes_from_string "hey")\n    (println (array_length bs))\n    return 0\n}\nshadow main { assert true }\n',
    # enums, matching on unions inside loops, cond, tuples of structs
    'enum Op { Add = 1, Sub = 2, Neg = 70000 }\nstruct V { n: int, tag: string }\nunion Tok { Num { v: int }, Sym { s: string, op: int } }\nfn weight(o: Op) -> int {\n    return (cond ((== o Op.Add) 1) ((== o Op.Sub) 2) (else 3))\n}\nshadow weight { assert (== (weight Op.Neg) 3) }\nfn mk(i: int) -> Tok {\n    if (== i 0) {\n        return Tok.Num { v: 4 }\n    }\n    return Tok.Sym { s: "+", op: i }\n}\nshadow mk { assert true }\nfn main() -> int {\n    let mut total: int = 0\n    for i in (range 0 3) {\n        let t: Tok = (mk i)\n        match t {\n            Num(n) => { set total (+ total n.v) }\n            Sym(y) => {\n                if (== y.op (weight Op.Add)) {\n                    continue\n                }\n                (println y.s)\n            }\n        }\n    }\n    (println total)\n    let pr: (V, int) = (V { n: 1, tag: "t" }, 2)\n    (println pr.1)\n    return 0\n}\nshadow main { assert true }\n',
]
TYPE_WORDS = ["int", "string", "bool", "float", "void", "T", "E", "array<int>", "array<T>", "bstring", "P", "Outcome<int, string>",
              "Maybe<T>", "fn(int) -> int", "(int, string)", "HashMap<string, int>", "Op", "u8"]


@st.composite
def mutant(draw, features):
    if draw(st.integers(0, 3)) == 0:
        src = draw(st.sampled_from(FEATURE_SEEDS))
    else:
        prog = draw(progen.programs(features=features, size=2))
        src = progen.print_program(prog)
    toks = tokens_of(src)
    sig = [i for i, t in enumerate(toks) if not t.isspace()]
    nm = draw(st.integers(1, 4))
    kinds = []
    for _ in range(nm):
        if not sig:
            break
        k = draw(st.sampled_from(["delete", "duplicate", "swap", "replace", "truncate", "inject_kw", "unbalance", "splice", "bytes", "drop_range",
                                  "type_swap", "type_swap", "ident_swap", "none"]))
        kinds.append(k)
        i = sig[draw(st.integers(0, len(sig) - 1))]
        if k == "delete":
            toks[i] = ""
        elif k == "duplicate":
            toks[i] = toks[i] + " " + toks[i]
        elif k == "swap":
            j = sig[draw(st.integers(0, len(sig) - 1))]
            toks[i], toks[j] = toks[j], toks[i]
        elif k == "replace":
            toks[i] = draw(st.sampled_from(KEYWORDS))
        elif k == "truncate":
            toks = toks[:i]
        elif k == "inject_kw":
            toks[i] = toks[i] + " " + draw(st.sampled_from(KEYWORDS)) + " "
        elif k == "unbalance":
            toks[i] = draw(st.sampled_from(["(", ")", "{", "}", "[", "]", "((((", "}}}}", "\""]))
        elif k == "splice":
            j = sig[draw(st.integers(0, len(sig) - 1))]
            lo, hi = min(i, j), max(i, j)
            toks = toks[:lo] + toks[hi:] + toks[lo:hi]
        elif k == "bytes":
            toks[i] = draw(st.binary(min_size=1, max_size=6)).decode("latin-1")
        elif k == "type_swap":
            # a type word is replaced by another type word: the program stays syntactically plausible and reaches the
            # type checker with an unexpected combination
            tidx = [x for x in sig if toks[x] in ("int", "string", "bool", "float", "T", "E", "P", "V", "Op", "bstring")]
            if tidx:
                toks[tidx[draw(st.integers(0, len(tidx) - 1))]] = draw(st.sampled_from(TYPE_WORDS))
        elif k == "ident_swap":
            ids = [x for x in sig if toks[x][:1].isalpha() and toks[x] not in KEYWORDS]
            if len(ids) >= 2:
                a_, b_ = ids[draw(st.integers(0, len(ids) - 1))], ids[draw(st.integers(0, len(ids) - 1))]
                toks[a_] = toks[b_]
        elif k == "none":
            pass
        elif k == "drop_range":
            j = min(len(toks), i + draw(st.integers(1, 30)))
            toks = toks[:i] + toks[j:]
        sig = [x for x, t in enumerate(toks) if t and not t.isspace()]
    return {"text": "".join(toks), "kinds": kinds}


def ramp_cases(tier):
    def prog(stmt, pre=""):
        return "%sfn main() -> int {\n    let x: int = 1\n    %s\n    return 0\n}\nshadow main { assert true }\n" % (pre, stmt)
    depths = [10, 100, 999, 1000, 1001, 2000, 10000] + ([100000] if tier == "thorough" else [30000])
    out = {}
    for d in depths:
        out["paren_%d" % d] = prog("(println " + "(" * d + "x" + ")" * d + ")")
        out["prefix_call_%d" % d] = prog("(println " + "(+ 1 " * d + "x" + ")" * d + ")")
        out["array_literal_%d" % d] = prog("let a: int = " + "[" * d + "1" + "]" * d)
        out["blocks_%d" % d] = prog("if true {" * d + " (println x) " + "}" * d)
        out["unary_not_%d" % d] = prog("(println (" + "not " * d + "true))")
        out["unary_minus_%d" % d] = prog("(println (" + "- " * d + "x))")
        out["infix_chain_%d" % d] = prog("(println (x" + " + x" * d + "))")
        out["field_chain_%d" % d] = prog("(println x" + ".a" * d + ")")
        out["else_if_chain_%d" % d] = prog("if false { (println x) }" + " else if false { (println x) }" * d + " else { (println x) }")
        out["array_type_%d" % d] = prog("let a: " + "array<" * d + "int" + ">" * d + " = []")
        out["fn_type_%d" % d] = prog("(println x)", pre="fn g(h: " + "fn(" * d + "int" + ") -> int" * d + ") -> int {\n    return 0\n}\nshadow g { assert true }\n")
        out["struct_literal_%d" % d] = prog("let s: int = " + "P { x: " * d + "1" + " }" * d)
        out["match_arms_%d" % d] = prog("match x {" + " A(a) => { (println 1) }" * min(d, 20000) + " }")
        out["unterminated_open_%d" % d] = prog("(println " + "(" * d)
        out["cond_nest_%d" % d] = prog("(println " + "(cond ((== x 1) " * d + "x" + " (else 0))" * d + ")")
    return out


class Ctx:
    pass


def make_ctx(widx, tier, opts):
    ctx = Ctx()
    ctx.asan = runner.Tools("asan")
    ctx.dir = os.path.join(common.scratch(), "w%d" % widx)
    os.makedirs(ctx.dir, exist_ok=True)
    ctx.features, _g = harness.features_for(PROP)
    ctx.budget = 10.0
    return ctx


def strategy(ctx):
    return mutant(ctx.features)


def oracle(ctx, text, name="in.nano", budget=None):
    """Returns (verdict, detail): ok / violation / inconclusive.
    `text` is one source text, or a JSON bundle {"files": {name: text}, "main": name} for inputs made of several files."""
    raw = text if isinstance(text, bytes) else text.encode("utf-8", "surrogateescape")
    if raw.startswith(b'{') and b'"files"' in raw[:200]:
        try:
            bundle = json.loads(raw.decode("utf-8"))
        except ValueError:
            bundle = None
        if bundle and isinstance(bundle.get("files"), dict):
            d = os.path.join(ctx.dir, "multi_" + name.replace(".nano", ""))
            shutil.rmtree(d, ignore_errors=True)
            os.makedirs(d)
            for fn_, ft in bundle["files"].items():
                with open(os.path.join(d, os.path.basename(fn_)), "w", encoding="utf-8", newline="") as fh:
                    fh.write(ft)
            saved = ctx.dir
            ctx.dir = d
            try:
                return oracle(ctx, bundle["files"][bundle["main"]], os.path.basename(bundle["main"]), budget)
            finally:
                ctx.dir = saved
                shutil.rmtree(d, ignore_errors=True)
    p = os.path.join(ctx.dir, name)
    with open(p, "wb") as fh:
        fh.write(raw)
    out = p + ".nvm"
    if os.path.exists(out):
        os.unlink(out)
    budget = budget or ctx.budget
    env = dict(ctx.asan.env)
    # ASan cannot run under `ulimit -v`; its own RSS limit bounds memory instead
    env["ASAN_OPTIONS"] = "detect_leaks=0:abort_on_error=0:allocator_may_return_null=1:hard_rss_limit_mb=4000"
    cmd = [ctx.asan.virt, p, "--emit-nvm", "-o", out]
    t0 = time.time()
    rc, o, e, to = common.run(cmd, timeout=budget, cwd=ctx.dir, env=env)
    dt = time.time() - t0
    if to:
        # suspected hang: three more runs with ten times the budget
        slow = 0
        for _ in range(3):
            rc2, o2, e2, to2 = common.run(cmd, timeout=budget * 10, cwd=ctx.dir, env=env)
            if to2:
                slow += 1
        if slow == 3:
            return "violation", "no result within %.0f s (three runs)" % (budget * 10)
        return "inconclusive", "slow once (%.1fs), finished on re-run" % dt
    if b"stack-overflow" in e and runner.sanitizer_report(e):
        # instrumented frames are several times larger: a stack overflow only counts if the build as shipped
        # (plain flavour) dies too
        plain = runner.Tools("plain")
        rc3, o3, e3, to3 = common.run([plain.virt, p, "--emit-nvm", "-o", out], timeout=budget * 3, cwd=ctx.dir, env=plain.env)
        if rc3 is not None and rc3 < 0:
            return "violation", "stack overflow (%s in the plain build, AddressSanitizer: stack-overflow in the instrumented one)" % runner.sig_of(rc3)
        return "ok", "rejected" if rc3 == 1 else "accepted"
    if runner.sanitizer_report(e):
        m = re.search(rb"(ERROR: AddressSanitizer: [^\n]*|[^\n]*runtime error:[^\n]*)", e)
        return "violation", "sanitizer report: " + (m.group(1).decode("utf-8", "replace")[:200] if m else "?")
    if rc is not None and rc < 0:
        return "violation", "killed by %s" % runner.sig_of(rc)
    if rc not in (0, 1):
        return "violation", "exit status %s" % rc
    if rc == 1 and not e.strip():
        return "violation", "exit 1 without any diagnostic"
    if rc == 0 and not os.path.exists(out):
        return "violation", "exit 0 but no output file"
    return "ok", "accepted" if rc == 0 else "rejected"


def run_case(ctx, m, ev):
    v, d = oracle(ctx, m["text"])
    ev.case(m["text"], v == "ok" and len(m["text"].split()) >= 5)
    ev.cls("mutant_" + (d if v == "ok" else v))
    for k in set(m["kinds"]):
        ev.cls("mutation_" + k)
    if v == "inconclusive":
        ev.inconclusive += 1
    if v == "ok" and d == "rejected" and len(ev.samples) < 2 and ev.evaluations % 17 == 3:
        ev.sample({"mutant": m["text"][:800], "kinds": m["kinds"]})
    if v == "violation":
        raise CaseFailure(d, {})


def describe_failure(ctx, m, cf):
    return {"src": m["text"], "detail": cf.detail, "payload": {"kinds": m["kinds"]}, "sigs": []}


def replay(path):
    ctx = make_ctx(0, "quick", {})
    data = open(path, "rb").read()
    v, d = oracle(ctx, data, "replay.nano")
    print("replay:", v, d)
    return 1 if v == "violation" else 0


def import_graph_cases():
    """Every import graph over a main file and up to two modules (edges main->m, m->m incl. self loops and cycles,
    an edge to a file that does not exist, a module with a syntax error): 3 x 2^6 shapes, all enumerated."""
    cases = {}
    names = ["p", "a", "b"]
    for mask in range(1 << 6):
        edges = [(i, j) for k, (i, j) in enumerate([(0, 1), (0, 2), (1, 1), (1, 2), (2, 1), (2, 2)]) if mask >> k & 1]
        for extra in ("none", "missing", "broken"):
            files = {}
            for i, n in enumerate(names):
                imps = ['from "%s.nano" import f_%s' % (names[j], names[j]) for (x, j) in edges if x == i]
                if extra == "missing" and i == 1:
                    imps.append('from "nowhere.nano" import zzz')
                calls = " ".join("(f_%s x)" % names[j] for (x, j) in edges if x == i and j != i)
                body = "    return (+ x 1)" if not calls else "    return (+ 1 %s)" % ("(f_%s x)" % names[[j for (x, j) in edges if x == i and j != i][0]])
                if i == 0:
                    files["p.nano"] = "\n".join(imps) + "\nfn main() -> int {\n    let x: int = 1\n" + body.replace("return", "(println") .replace("\n", "") + ")\n    return 0\n}\nshadow main { assert true }\n"
                else:
                    txt = "\n".join(imps) + "\npub fn f_%s(x: int) -> int {\n%s\n}\nshadow f_%s { assert true }\n" % (n, body, n)
                    if extra == "broken" and i == 2:
                        txt += "fn oops( {\n"
                    files[n + ".nano"] = txt
            cases["imports_%02d_%s" % (mask, extra)] = json.dumps({"files": files, "main": "p.nano"})
    return cases


def import_job(args):
    idx, name, text = args
    ctx = make_ctx(500 + idx % 16, "quick", {})
    v, d = oracle(ctx, text, "ig%d.nano" % idx)
    return (name, v, d)


def ramp_job(args):
    idx, name, text = args
    ctx = make_ctx(400 + idx % 16, "quick", {})
    ctx.budget = 30.0
    v, d = oracle(ctx, text, "ramp%d.nano" % idx)
    depth = int(name.rsplit("_", 1)[1])
    if v == "ok" and depth > 1001 and d == "accepted" and not name.startswith(("infix_chain", "else_if_chain", "match_arms", "field_chain")):
        # beyond the documented depth limit the result must be a diagnostic (constructs that nest by recursion)
        return (name, "violation", "nesting depth %d beyond the documented limit (1000) was accepted" % depth)
    return (name, v, d)


def fuzz_campaign(ev, tier, sd, ctx):
    """Returns list of (artifact path, detail) confirmed through the subprocess oracle."""
    probe = common.build_probe("fuzz_frontend", "fuzz", libs=(), fuzzer=True)
    work = os.path.join(common.disk_scratch(), "fuzz")
    os.makedirs(work, exist_ok=True)
    seedcorp = os.path.join(work, "seed_corpus")
    os.makedirs(seedcorp, exist_ok=True)
    n = 0
    for pat in ("tests/*.nano", "examples/language/*.nano", "tests/negative/**/*.nano", "tests/fuzzing/**/*"):
        for f in sorted(glob.glob(os.path.join(common.REPO, pat), recursive=True)):
            if os.path.isfile(f) and os.path.getsize(f) < 16384:
                shutil.copy(f, os.path.join(seedcorp, "%04d_%s" % (n, os.path.basename(f))))
                n += 1
    dictf = os.path.join(work, "nano.dict")
    with open(dictf, "w") as fh:
        for k in KEYWORDS:
            if k.isascii() and k.isprintable() and '"' not in k and "\\" not in k:
                fh.write('"%s"\n' % k)
    jobs = 8 if tier == "quick" else 16
    secs = 40 if tier == "quick" else 1200
    procs = []
    for j in range(jobs):
        cdir = os.path.join(work, "c%d" % j)
        os.makedirs(cdir, exist_ok=True)
        args = [probe, "-max_len=16384", "-timeout=10", "-rss_limit_mb=3000", "-max_total_time=%d" % secs,
                "-seed=%d" % (sd * 100 + j + 1), "-close_fd_mask=3", "-dict=" + dictf, "-print_final_stats=1",
                "-artifact_prefix=%s/art%d_" % (work, j), cdir]
        if j % 4 != 3:
            args.append(seedcorp)      # every fourth job starts from an empty corpus
        env = dict(os.environ, ASAN_OPTIONS="detect_leaks=0:allocator_may_return_null=1", UBSAN_OPTIONS="print_stacktrace=1")
        procs.append(subprocess.Popen(args, stdout=subprocess.DEVNULL, stderr=open(os.path.join(work, "log%d" % j), "w"), env=env))
    for p in procs:
        try:
            p.wait(timeout=secs + 120)
        except subprocess.TimeoutExpired:
            p.kill()
    execs = 0
    units = 0
    cov = 0
    for j in range(jobs):
        log = open(os.path.join(work, "log%d" % j), errors="replace").read()
        m = re.search(r"stat::number_of_executed_units:\s*(\d+)", log)
        if m:
            execs += int(m.group(1))
        m2 = re.findall(r"cov: (\d+) ft: \d+ corp: (\d+)", log)
        if m2:
            cov = max(cov, int(m2[-1][0]))
            units += int(m2[-1][1])
    ev.evaluations += execs
    ev.nontrivial_extra += units
    ev.extra["fuzzer"] = {"jobs": jobs, "seconds_each": secs, "executions": execs, "corpus_units_kept": units, "max_edge_coverage": cov,
                          "seed_corpus_files": n}
    found = []
    for a in sorted(glob.glob(os.path.join(work, "art*_*"))):
        base = os.path.basename(a)
        kind = base.split("_", 1)[1].split("-")[0]
        ev.cls("fuzz_artifact_" + kind)
        if kind not in ("crash", "timeout"):
            continue
        data = open(a, "rb").read()
        # the in-process target reads NUL-terminated text; the tool reads the file the same way
        v, d = oracle(ctx, data.split(b"\x00")[0], "artifact.nano")
        if v == "violation":
            found.append((a, d, data))
        else:
            ev.cls("fuzz_artifact_not_reproduced_by_tool")
    return found


def main(tier):
    ev = Evidence(PROP, tier, "exploration", RULE)
    ctx = make_ctx(99, tier, {})
    sd = common.seed()
    nviol = 0
    for f in common.fixed_findings(PROP):
        rp = os.path.join(common.VERIF, f["replay"][PROP])
        v, d = oracle(ctx, open(rp, "rb").read(), "fixed.nano")
        ev.cls("fixed_regression_replayed")
        if v != "violation" and f.get("valgrind"):
            # reads of uninitialised memory only show under the sanitizers when the garbage happens to be a bad pointer
            plain = runner.Tools("plain")
            rcv, ov, evv, tov = common.run(["valgrind", "-q", "--error-exitcode=97", plain.virt, rp, "--emit-nvm", "-o", os.path.join(ctx.dir, "vg.nvm")],
                                           timeout=300, cwd=ctx.dir, env=plain.env)
            ev.cls("fixed_regression_replayed_memcheck")
            if rcv == 97 and b"uninitialised" in evv:
                v, d = "violation", "memcheck: " + evv.split(b"\n")[0].decode("utf-8", "replace")[:200]
        if v == "violation":
            print("C09: fixed finding %s is back: %s" % (f["id"], d))
            common.report_violation(PROP, rp)
            nviol += 1
    for f in common.open_findings(PROP):
        rp = os.path.join(common.VERIF, f["replay"][PROP])
        v, d = oracle(ctx, open(rp, "rb").read(), "known.nano")
        if v == "violation":
            common.report_known(PROP, "%s [%s]" % (f["what"], f["id"]))
            ev.known.append(f["id"])
    # import graphs (files that exist: cycles, self imports, missing and broken modules)
    igs = import_graph_cases()
    for (name, v, d) in common.parallel_map(import_job, [(i, n, t) for i, (n, t) in enumerate(sorted(igs.items()))]):
        ev.case("import_graph:" + name, v == "ok")
        ev.cls("import_graph_" + (d if v == "ok" else v))
        if v == "inconclusive":
            ev.inconclusive += 1
        if v == "violation":
            again = [oracle(ctx, igs[name], "ig_confirm.nano")[0] for _ in range(2)]
            if all(a == "violation" for a in again):
                p = common.save_replay(PROP, "%s.json" % name, igs[name])
                print("C09: import graph %s: %s" % (name, d))
                common.report_violation(PROP, p)
                nviol += 1
                break            # one root cause is enough to report; the rest of the family repeats it
    # ramps
    ramps = ramp_cases(tier)
    res = common.parallel_map(ramp_job, [(i, n, t) for i, (n, t) in enumerate(sorted(ramps.items()))])
    for (name, v, d) in res:
        ev.case(name, True)
        ev.cls("ramp_" + (d if v == "ok" else v))
        if v == "inconclusive":
            ev.inconclusive += 1
        if v == "violation":
            again = [oracle(ctx, ramps[name], "ramp_confirm.nano", budget=30.0)[0] for _ in range(2)]
            if all(a == "violation" for a in again) or "beyond the documented limit" in d:
                p = common.save_replay(PROP, "ramp_%s.nano" % name, ramps[name])
                print("C09: nesting ramp %s: %s" % (name, d))
                common.report_violation(PROP, p)
                nviol += 1
    ev.sample({"ramp": "unary_minus_30000", "text_head": ramps.get("unary_minus_30000", "")[:120]})
    # token-level mutants
    total = 3000 if tier == "quick" else 50000
    results = harness.run_workers("pbt.c09_frontend_total", tier, total)
    for r in results:
        ev.merge(r["evidence"])
        if r["error"]:
            print("C09: worker %d harness error (not a verdict):\n%s" % (r["widx"], r["error"]), file=sys.stderr)
            ev.cls("worker_errors")
        fl = r["failure"]
        if fl:
            again = [oracle(ctx, fl["src"], "confirm.nano")[0] for _ in range(3)]
            if not all(a == "violation" for a in again):
                ev.inconclusive += 1
                continue
            p = common.save_replay(PROP, "mutant_seed%d_w%d.nano" % (sd, r["widx"]), fl["src"].encode("utf-8", "surrogateescape"), binary=True)
            print("C09: token mutant: %s (mutations %s)" % (fl["detail"], fl["payload"].get("kinds")))
            common.report_violation(PROP, p)
            nviol += 1
    # coverage-guided campaign
    found = fuzz_campaign(ev, tier, sd, ctx)
    seen = set()
    for (a, d, data) in found:
        key = re.sub(r"0x[0-9a-f]+|\d+", "N", d)[:80]
        if key in seen:
            continue
        seen.add(key)
        p = common.save_replay(PROP, "fuzz_%s" % os.path.basename(a).split("_", 1)[1][:40], data, binary=True)
        print("C09: fuzzer artifact: %s" % d)
        common.report_violation(PROP, p)
        nviol += 1
    ev.assumptions = ["leaks are not part of the property (detect_leaks=0)", "resident memory is capped at 4 GB per run (ASan hard_rss_limit_mb); exceeding it kills the run and is reported as a violation (unbounded growth)",
                      "libFuzzer campaigns are only approximately reproducible from the seed; saved artifacts are the reproducible unit"]
    if ev.classes.get("worker_errors"):
        ev.write()
        sys.exit(2)
    common.finish(ev, nviol)
