"""C16 - a failing FFI co-process is contained by the VM (fault enumeration).

A stand-in named `nano_cop` (tools/fake_cop.py) is placed first on PATH; it spawns the real nano_cop and relays the
pipe protocol message by message, injecting one fault from a plan.  Plan space, enumerated completely:
  step in {before READY, after READY, on reading request k, before reply k, mid-reply k} (k = 1..3)
  kind in {exit(0), exit(1), SIGKILL, close stdin, close stdout, close both, short header (1..7 bytes), wrong version,
           wrong message type, payload length > COP_MAX_PAYLOAD, payload shorter than announced then EOF, payload longer
           than announced, undecodable value (bad tag / array count 2^32-1 / string length past the end),
           FFI_ERROR with empty / 1 MiB text}
Hypothesis additionally draws sequences of up to 3 faults across relaunches.
The workload program makes 5 external calls and prints a numbered line before each.
Oracle: the VM is not killed by a signal; exit status 0 or 1; exit 1 comes with an error report on stderr; stdout is a
prefix of the expected output and contains at least every line printed before the faulted call; when no fault fires
the output is complete; after the VM exits neither the stand-in nor the real co-process is alive (polled for 2 s).
"""
import itertools
import json
import os
import shutil
import stat
import subprocess
import sys
import time

from hypothesis import strategies as st

from . import common, harness, runner
from .common import Evidence
from .harness import CaseFailure

PROP = "C16"
RULE = ("fault plan = (step, k, kind); the grid of 11 steps x 32 kinds is enumerated completely; non-trivial = the fault "
        "actually fired (the stand-in logged the injection); all plans are distinct. Generated part: sequences of 2-3 "
        "faults on successive launches of the co-process")

STEPS = [("before_ready", 1), ("after_ready", 1)] + [(s, k) for s in ("on_request", "before_reply", "mid_reply") for k in (1, 2, 3)]
KINDS = ["exit0", "exit1", "sigkill", "close_stdin", "close_stdout", "close_both"] + ["short_header:%d" % n for n in range(1, 8)] + \
        ["wrong_version", "wrong_type", "len_over_max", "payload_short_then_eof", "payload_longer", "bad_tag", "array_count_huge",
         "string_len_past_end", "ffi_error_empty", "ffi_error_1mb", "string_len_wrap", "array_inner_string_wrap", "array_nested_deep",
         "ffi_error_300", "ffi_error_20000", "array_count_huge_one_elem",
         "wrong_version_then_linger", "wrong_type_then_linger", "garbage_then_linger"]

WORKLOAD = '''extern fn labs(x: int) -> int
fn main() -> int {
    let mut r: int = 0
    (println "L1")
    unsafe { set r (labs -11) }
    (println r)
    (println "L2")
    (println (is_digit 53))
    (println "L3")
    unsafe { set r (labs -33) }
    (println r)
    (println "L4")
    (println (is_alpha 65))
    (println "L5")
    unsafe { set r (labs -55) }
    (println r)
    (println "DONE")
    return 0
}
shadow main { assert true }
'''
EXPECTED = b"L1\n11\nL2\ntrue\nL3\n33\nL4\ntrue\nL5\n55\nDONE\n"


class Ctx:
    pass


def make_ctx(widx, tier, opts):
    ctx = Ctx()
    ctx.tools = runner.Tools(opts.get("flavour", "plain"))
    ctx.dir = os.path.join(common.scratch(), "w%d" % widx)
    os.makedirs(ctx.dir, exist_ok=True)
    ctx.bindir = os.path.join(ctx.dir, "fakebin")
    os.makedirs(ctx.bindir, exist_ok=True)
    fake = os.path.join(ctx.bindir, "nano_cop")
    shutil.copy(os.path.join(common.VERIF, "tools", "fake_cop.py"), fake)
    os.chmod(fake, os.stat(fake).st_mode | stat.S_IXUSR | stat.S_IXGRP | stat.S_IXOTH)
    p = runner.write_src(ctx.dir, "work.nano", WORKLOAD)
    ctx.nvm = os.path.join(ctx.dir, "work.nvm")
    rc, out, err, to = ctx.tools.emit_nvm(p, ctx.nvm, ctx.dir)
    if rc != 0:
        raise SystemExit("C16: workload program does not compile (machinery error): %s" % err[-300:])
    return ctx


def alive(pid):
    try:
        os.kill(pid, 0)
    except ProcessLookupError:
        return False
    except PermissionError:
        return True
    # a zombie still answers kill(0): look at its state
    try:
        with open("/proc/%d/stat" % pid) as fh:
            return fh.read().split(")")[-1].split()[0] != "Z"
    except OSError:
        return False


def run_plan(ctx, plans, tag="r"):
    """plans: list of plan dicts (launch numbers 1..n). Returns (verdict, detail, info)."""
    log = os.path.join(ctx.dir, "%s_%d.log" % (tag, os.getpid()))
    for f in (log, log + ".count"):
        if os.path.exists(f):
            os.unlink(f)
    env = dict(ctx.tools.env)
    env["PATH"] = ctx.bindir + ":" + env["PATH"]
    env["C16_REAL_COP"] = ctx.tools.cop
    env["C16_LOG"] = log
    # fake_cop handles one plan per launch: pass the one for each launch number
    env["C16_PLAN"] = json.dumps(plans[0]) if len(plans) == 1 else json.dumps({"multi": plans})
    if len(plans) > 1:
        env["C16_PLAN"] = json.dumps(plans[0])
        env["C16_PLANS"] = json.dumps(plans)
    # stdout / stderr go to files and only the VM process itself is waited for: a co-process that outlives the VM keeps
    # the inherited stderr open, and waiting for a pipe to close would wait for that co-process too
    fo = os.path.join(ctx.dir, "%s_%d.out" % (tag, os.getpid()))
    fe = os.path.join(ctx.dir, "%s_%d.err" % (tag, os.getpid()))
    to = False
    with open(fo, "wb") as oh, open(fe, "wb") as eh:
        pr = subprocess.Popen([ctx.tools.vm, "--isolate-ffi", ctx.nvm], cwd=ctx.dir, env=env, stdin=subprocess.DEVNULL, stdout=oh, stderr=eh,
                              start_new_session=True)
        try:
            rc = pr.wait(timeout=40)
        except subprocess.TimeoutExpired:
            to = True
            try:
                os.killpg(pr.pid, 9)
            except OSError:
                pass
            rc = pr.wait()
    out = open(fo, "rb").read()
    err = open(fe, "rb").read()
    logtxt = open(log).read() if os.path.exists(log) else ""
    fired = "INJECT" in logtxt
    pids = set()
    for ln in logtxt.split("\n"):
        for tok in ln.split():
            if tok.startswith(("pid=", "real=")):
                pids.add(int(tok.split("=")[1]))
    info = {"rc": rc, "out": out, "err": err[-400:], "fired": fired, "launches": logtxt.count("START")}
    if to:
        return "violation", "the VM did not finish within 40 s", info
    problems = []
    if rc is not None and rc < 0:
        problems.append("VM killed by %s" % runner.sig_of(rc))
    elif rc not in (0, 1):
        problems.append("VM exit status %s" % rc)
    if runner.sanitizer_report(err):
        problems.append("sanitizer report in the VM")
    if rc == 1 and not err.strip():
        problems.append("exit 1 without an error report")
    if not EXPECTED.startswith(out):
        problems.append("stdout is not a prefix of the expected output: %r" % out[-120:])
    else:
        first = plans[0]
        need = b""
        if len(plans) > 1:
            # with several faults only the lines before the earliest faulted call are guaranteed
            ks = [1 if p["step"] in ("before_ready", "after_ready") else p.get("k", 1) for p in plans]
            first = {"step": "on_request", "k": min(ks)}
        if fired:
            need = b"L1\n" if first["step"] in ("before_ready", "after_ready") else EXPECTED[:EXPECTED.index(b"L%d\n" % first.get("k", 1)) + 3]
        if fired and not out.startswith(need):
            problems.append("output printed before the faulted call was lost: got %r" % out[-80:])
        if rc == 0 and out != EXPECTED:
            problems.append("exit 0 but the output is incomplete")
    if not fired and (rc != 0 or out != EXPECTED):
        problems.append("no fault fired but the run is not the plain run (exit %s)" % rc)
    # no co-process may remain
    deadline = time.time() + 2.0
    left = [p for p in pids if alive(p)]
    while left and time.time() < deadline:
        time.sleep(0.05)
        left = [p for p in left if alive(p)]
    if left:
        problems.append("co-process still alive 2 s after the VM exited (pids %s)" % left)
        for p in left:
            try:
                os.kill(p, 9)
            except OSError:
                pass
    try:
        os.killpg(pr.pid, 9)        # whatever is left of the session (nothing, on a correct tree)
    except OSError:
        pass
    return ("violation", "; ".join(problems), info) if problems else ("ok", "", info)


@st.composite
def sequence(draw):
    n = draw(st.integers(2, 3))
    plans = []
    for i in range(n):
        s, k = draw(st.sampled_from(STEPS))
        plans.append({"step": s, "k": k, "kind": draw(st.sampled_from(KINDS)), "launch": i + 1})
    return plans


def strategy(ctx):
    return sequence()


def run_case(ctx, plans, ev):
    # fake_cop takes the plan whose launch number matches: give it the whole list through C16_PLAN of launch i
    v, detail, info = run_seq(ctx, plans)
    ev.case(json.dumps(plans), info["fired"] and v == "ok")
    ev.cls("sequence_" + v)
    ev.cls("sequence_launches_%d" % min(info["launches"], 4))
    if v == "violation":
        raise CaseFailure(detail, {"plans": plans})


def run_seq(ctx, plans):
    # the stand-in reads only C16_PLAN; encode the per-launch plans by writing a plan file it consults
    return run_plan(ctx, plans, tag="seq")


def describe_failure(ctx, plans, cf):
    return {"src": json.dumps(plans), "detail": cf.detail, "payload": {}, "sigs": []}


def grid_job(args):
    idx, chunk = args
    ctx = make_ctx(600 + idx, "quick", {})
    out = []
    for (s, k, kind) in chunk:
        plan = {"step": s, "k": k, "kind": kind, "launch": 1}
        v, detail, info = run_plan(ctx, [plan], tag="g")
        out.append((plan, v, detail, info["fired"], info["rc"], info["launches"]))
    return out


def replay(path):
    ctx = make_ctx(0, "quick", {})
    plans = json.load(open(path))
    if isinstance(plans, dict):
        plans = [plans]
    v, detail, info = run_plan(ctx, plans, tag="replay")
    print("replay:", v, detail, {k: info[k] for k in ("rc", "fired", "launches")})
    print("stderr:", info["err"][-300:])
    return 1 if v == "violation" else 0


def main(tier):
    ev = Evidence(PROP, tier, "fault_enumeration", RULE)
    ctx = make_ctx(99, tier, {})
    nviol = 0
    known_keys = set()
    for f in common.open_findings(PROP):
        plans = json.load(open(os.path.join(common.VERIF, f["replay"][PROP])))
        plans = [plans] if isinstance(plans, dict) else plans
        v, detail, info = run_plan(ctx, plans, tag="known")
        for kk in f.get("c16_kinds", []):
            known_keys.add(kk)
        if v == "violation":
            common.report_known(PROP, "%s [%s]" % (f["what"], f["id"]))
            ev.known.append(f["id"])
    for f in common.fixed_findings(PROP):
        rp = os.path.join(common.VERIF, f["replay"][PROP])
        plans = json.load(open(rp))
        plans = [plans] if isinstance(plans, dict) else plans
        v, detail, info = run_plan(ctx, plans, tag="fixed")
        ev.cls("fixed_regression_replayed")
        if v == "violation":
            print("C16: fixed finding %s is back: %s" % (f["id"], detail))
            common.report_violation(PROP, rp)
            nviol += 1
    # plain run first: the stand-in must be transparent
    v, detail, info = run_plan(ctx, [{"step": "never", "k": 0, "kind": "none", "launch": 1}], tag="plain")
    if v != "ok":
        print("C16: the relaying stand-in changes the plain run (machinery error): %s" % detail, file=sys.stderr)
        ev.write()
        sys.exit(2)
    grid = [(s, k, kind) for (s, k) in STEPS for kind in KINDS if kind not in known_keys]
    ev.exclude("known_kinds", len(STEPS) * len([k for k in KINDS if k in known_keys]))
    chunks = [grid[i::common.NCPU] for i in range(common.NCPU)]
    res = common.parallel_map(grid_job, [(i, c) for i, c in enumerate(chunks) if c])
    seen = set()
    for lst in res:
        for (plan, v, detail, fired, rc, launches) in lst:
            ev.case(json.dumps(plan, sort_keys=True), fired)
            ev.cls("grid_" + ("fired" if fired else "not_reached"))
            ev.cls("grid_vm_exit_%s" % rc)
            if launches > 1:
                ev.cls("grid_relaunched")
            if v == "violation":
                key = detail.split(";")[0][:50]      # one report per root-cause signature, not per plan
                if key in seen:
                    ev.cls("grid_violation_duplicate_root_cause")
                    continue
                seen.add(key)
                again = [run_plan(ctx, [plan], tag="confirm")[0] for _ in range(3)]
                if not all(a == "violation" for a in again):
                    ev.inconclusive += 1
                    continue
                p = common.save_replay(PROP, "plan_%s_%d_%s.json" % (plan["step"], plan["k"], plan["kind"].replace(":", "")), json.dumps(plan, indent=1))
                print("C16: plan %s: %s" % (json.dumps(plan), detail))
                common.report_violation(PROP, p)
                nviol += 1
    # the reply decoder on hostile bytes, in process (rapidcheck, ASan/UBSan)
    probe = common.build_probe("cop_probe", "asan")
    params = "seed=%d max_success=%d" % (common.seed() + 1, 20000 if tier == "quick" else 1000000)
    pr = subprocess.run([probe, "hostile"], capture_output=True, text=True, env=dict(os.environ, RC_PARAMS=params, ASAN_OPTIONS="detect_leaks=0"))
    summ = None
    pfails = []
    for line in pr.stdout.splitlines():
        if line.startswith("SUMMARY "):
            summ = json.loads(line[8:])
        elif line.startswith("FAIL "):
            pfails.append(line[5:])
    if summ is None or pfails or pr.returncode != 0:
        what = pfails[0] if pfails else "probe died: " + pr.stderr[-1500:]
        p = common.save_replay(PROP, "decoder_seed%d.txt" % common.seed(), "cop_probe hostile RC_PARAMS='%s'\n%s\n" % (params, what))
        print("C16: reply decoder on hostile bytes: %s" % what[:500])
        common.report_violation(PROP, p)
        nviol += 1
    if summ:
        ev.evaluations += summ["evaluations"]
        ev.nontrivial_extra += summ["distinct_nontrivial"]
        for k, v in summ["classes"].items():
            ev.cls("decoder_" + k, v)
    # sequences of faults across relaunches (generated)
    total = 160 if tier == "quick" else 3000
    results = harness.run_workers("pbt.c16_cop_faults", tier, total)
    for r in results:
        ev.merge(r["evidence"])
        if r["error"]:
            print("C16: worker %d harness error (not a verdict):\n%s" % (r["widx"], r["error"]), file=sys.stderr)
            ev.cls("worker_errors")
        fl = r["failure"]
        if fl:
            plans = json.loads(fl["src"])
            again = [run_plan(ctx, plans, tag="confirm")[0] for _ in range(3)]
            if not all(a == "violation" for a in again):
                ev.inconclusive += 1
                continue
            p = common.save_replay(PROP, "sequence_seed%d_w%d.json" % (common.seed(), r["widx"]), json.dumps(plans, indent=1))
            print("C16: fault sequence %s: %s" % (json.dumps(plans), fl["detail"]))
            common.report_violation(PROP, p)
            nviol += 1
    ev.sample({"plan": {"step": "mid_reply", "k": 2, "kind": "sigkill"}, "workload": WORKLOAD})
    ev.exhaustive = True
    ev.extra["grid_size"] = len(grid)
    ev.assumptions = ["a fault scheduled after the last request of its kind is never reached (counted as not_reached)",
                      "the stand-in is a Python relay: timing differs from the real co-process"]
    common.finish(ev, nviol)
