"""C12 - a damaged bytecode file is refused, not executed (fault enumeration).

For compiler-produced files: every single-bit flip of the body, every truncation length, bursts of 2..32 bits
at every byte (quick) / bit (thorough) offset with sampled interiors, appended tails, all values of the 8
magic/version bytes -> nvm_deserialize must return NULL (in-process probe, exact-size heap buffers, ASan/UBSan).
A Hypothesis-drawn sample of faults per file is also run end to end through nano_vm: exit != 0, an error on
stderr, and none of the program's output.
"""
import glob
import json
import os
import subprocess

from hypothesis import given, settings, strategies as st, seed as hseed, HealthCheck, Phase

from . import common
from .common import Evidence

PROP = "C12"
RULE = ("fault = (file, kind, offset, length, pattern); files are compiler output for 4 fixed programs covering every "
        "section kind the serializer writes (strings, code, functions, debug, imports) plus seed-chosen repository "
        "programs; kinds: flip (every body bit), trunc (every length), burst (2..32 bits, first and last bit flipped, "
        "fixed + sampled interiors, every byte offset in quick / every bit offset in thorough), tail (1..64, 1 KiB, "
        "64 KiB; zero/0xFF/random), hdr (all 256 values of each magic/version byte). Every fault changes the file, "
        "so every evaluation is non-trivial; distinct by construction of the enumeration")

SENTINEL = "SENTINEL-C12"

PROGRAMS = {
    "minimal": 'fn main() -> int {\n    (println "%s")\n    return 0\n}\nshadow main { assert true }\n' % SENTINEL,
    "strings_loops": '''
struct P { x: int, name: string }
enum Color { Red = 0, Green = 1 }
union R { Ok { v: int }, Err { msg: string } }
let G: int = 41
fn fib(n: int) -> int {
    if (< n 2) { return n } else { return (+ (fib (- n 1)) (fib (- n 2))) }
}
shadow fib { assert (== (fib 5) 5) }
fn show(r: R) -> int {
    match r {
        Ok(o) => { (println o.v) return o.v }
        Err(e) => { (println e.msg) return 0 }
    }
}
shadow show { assert true }
fn main() -> int {
    (println "%s")
    let p: P = P { x: 3, name: "pt;#\\"" }
    let mut a: array<int> = [1, 2, 3]
    set a (array_push a (fib 10))
    for i in (range 0 (array_length a)) {
        (println (+ "item " (int_to_string (at a i))))
    }
    let mut k: int = 0
    while (< k 3) { set k (+ k 1) (println (+ G k)) }
    (println (show (R.Ok { v: p.x })))
    (println (show (R.Err { msg: p.name })))
    return 0
}
shadow main { assert true }
''' % SENTINEL,
    "imports": '''
extern fn abs(x: int) -> int
fn main() -> int {
    (println "%s")
    let mut r: int = 0
    unsafe { set r (abs -5) }
    (println r)
    (println (is_digit 53))
    (println (sqrt 16.0))
    return 0
}
shadow main { assert true }
''' % SENTINEL,
}


def many_functions():
    src = []
    for i in range(40):
        src.append('fn h_%d(n: int) -> int {\n    if (< n %d) { return (+ n %d) } else { (println "branch %d") return n }\n}\nshadow h_%d { assert true }'
                   % (i, i, i, i, i))
    src.append('fn main() -> int {\n    (println "%s")' % SENTINEL)
    for i in range(40):
        src.append("    (println (h_%d %d))" % (i, 40 - i))
    src.append("    return 0\n}\nshadow main { assert true }\n")
    return "\n".join(src)


PROGRAMS["many_functions"] = many_functions()


class Ctx:
    pass


def setup():
    ctx = Ctx()
    b = common.build("plain")
    ctx.virt = os.path.join(b, "bin", "nano_virt")
    ctx.vm = os.path.join(b, "bin", "nano_vm")
    ctx.probe = common.build_probe("nvm_probe", "asan")
    ctx.dir = common.scratch()
    return ctx


def compile_to(ctx, src_path, out, cwd):
    rc, o, e, to = common.run([ctx.virt, src_path, "--emit-nvm", "-o", out], timeout=60, cwd=cwd)
    return rc == 0 and os.path.exists(out)


def files_for(ctx, tier, sd):
    out = []
    for name, src in PROGRAMS.items():
        p = os.path.join(ctx.dir, name + ".nano")
        open(p, "w").write(src)
        o = os.path.join(ctx.dir, name + ".nvm")
        if not compile_to(ctx, p, o, ctx.dir):
            raise SystemExit("C12: fixed program %s is not accepted by the compiler (machinery error)" % name)
        out.append((name, o, True))
    repo = sorted(glob.glob(os.path.join(common.REPO, "tests", "*.nano")) +
                  glob.glob(os.path.join(common.REPO, "examples", "language", "*.nano")))
    want = 2 if tier == "quick" else 56
    limit = 6000 if tier == "quick" else 70000
    i = (sd * 7) % max(1, len(repo))
    tried = 0
    while want and tried < len(repo):
        f = repo[(i + tried * 5) % len(repo)]
        tried += 1
        o = os.path.join(ctx.dir, "repo_" + os.path.basename(f)[:-5] + ".nvm")
        if compile_to(ctx, f, o, common.REPO) and 300 <= os.path.getsize(o) <= limit:
            out.append(("repo:" + os.path.basename(f), o, False))
            want -= 1
    return out


def enum_one(args):
    probe, path, sd, patterns, stride = args
    r = subprocess.run([probe, "faults", path, str(sd), str(patterns), str(stride)], capture_output=True, text=True,
                       env=dict(os.environ, ASAN_OPTIONS="detect_leaks=0"))
    return (path, r.returncode, r.stdout, r.stderr[-3000:])


def e2e(ctx, path, kind, a, b, c):
    dmg = os.path.join(ctx.dir, "dmg_%d.nvm" % os.getpid())
    r = subprocess.run([ctx.probe, "apply", path, dmg, kind, str(a), str(b), str(c)], capture_output=True, text=True)
    if r.returncode == 3:
        return "na", ""
    if r.returncode != 0:
        return "na", "apply failed"
    rc, out, err, to = common.run([ctx.vm, dmg], timeout=20, cwd=ctx.dir)
    if to:
        return "inconclusive", "timeout"
    if rc == 0:
        return "fail", "nano_vm exit 0 on a damaged file"
    if rc < 0:
        return "fail", "nano_vm killed by signal %d" % -rc
    if out:
        return "fail", "program output from a damaged file: %r" % out[:80]
    if not err.strip():
        return "fail", "no error message"
    return "ok", ""


def replay(path):
    """Replay file: JSON {source_name|source, fault:[kind,a,b,c]}."""
    ctx = setup()
    d = json.load(open(path))
    src = d.get("source") or PROGRAMS[d["source_name"]]
    p = os.path.join(ctx.dir, "replay.nano")
    open(p, "w").write(src)
    o = os.path.join(ctx.dir, "replay.nvm")
    if not compile_to(ctx, p, o, ctx.dir):
        print("replay: program not accepted")
        return 0
    k, a, b, c = d["fault"]
    r = subprocess.run([ctx.probe, "check", o, k, str(a), str(b), str(c)], capture_output=True, text=True,
                       env=dict(os.environ, ASAN_OPTIONS="detect_leaks=0"))
    print("in-process:", r.stdout.strip() or r.stderr[-500:])
    s, why = e2e(ctx, o, k, a, b, c)
    print("nano_vm:", s, why)
    return 1 if (r.returncode not in (0, 3) or s == "fail") else 0


def main(tier):
    ev = Evidence(PROP, tier, "fault_enumeration", RULE)
    ctx = setup()
    sd = common.seed()
    nviol = 0
    files = files_for(ctx, tier, sd)
    patterns, stride = (4, 8) if tier == "quick" else (8, 1)
    jobs = [(ctx.probe, p, sd, patterns if os.path.getsize(p) < 20000 else 2, stride if os.path.getsize(p) < 20000 else 8)
            for (_, p, _) in files]
    results = common.parallel_map(enum_one, jobs)
    srcs = {p: n for (n, p, _) in files}
    for (path, rc, out, err) in results:
        name = srcs[path]
        summ = None
        fails = []
        for line in out.splitlines():
            if line.startswith("SUMMARY "):
                summ = json.loads(line[8:])
            elif line.startswith("FAIL "):
                fails.append(line[5:])
        if summ is None:
            p = common.save_replay(PROP, "probe_crash_%s.txt" % name.replace(":", "_"),
                                   "probe died while enumerating faults of %s\n%s\n" % (name, err))
            print("C12: probe died (sanitizer report or crash) on %s" % name)
            common.report_violation(PROP, p)
            nviol += 1
            continue
        ev.evaluations += summ["evaluations"]
        ev.nontrivial_extra += summ["evaluations"]
        for k, v in summ["classes"].items():
            ev.cls(k, v)
        for s in summ["samples"][:2]:
            ev.sample({"file": name, "bytes": summ["file_bytes"], "fault": s})
        ev.cls("files")
        for f in fails[:3]:
            what, _, desc = f.partition(" | ")
            w = desc.split()
            doc = {"fault": [w[0], int(w[1]), int(w[2]), int(w[3])]}
            if name.startswith("repo:"):
                doc["source"] = open(os.path.join(common.REPO, "tests", name[5:])
                                     if os.path.exists(os.path.join(common.REPO, "tests", name[5:]))
                                     else os.path.join(common.REPO, "examples", "language", name[5:])).read()
            else:
                doc["source_name"] = name
            p = common.save_replay(PROP, "fault_%s_%s_%s.json" % (name.replace(":", "_"), w[0], w[1]), json.dumps(doc, indent=1))
            # confirm 3x
            okc = all(subprocess.run([ctx.probe, "check", path] + w, capture_output=True,
                                     env=dict(os.environ, ASAN_OPTIONS="detect_leaks=0")).returncode == 1 for _ in range(3))
            if okc:
                print("C12: %s: %s (%s)" % (name, what, desc))
                common.report_violation(PROP, p)
                nviol += 1
                break

    # ---- end-to-end sample through nano_vm (only files whose program prints the sentinel first)
    e2e_files = [(n, p) for (n, p, s) in files if s]
    per_file = 60 if tier == "quick" else 400
    state = {}

    fault = st.one_of(
        st.tuples(st.just("flip"), st.integers(256, 10 ** 6), st.just(0), st.just(0)),
        st.tuples(st.just("trunc"), st.integers(0, 10 ** 5), st.just(0), st.just(0)),
        st.tuples(st.just("burst"), st.integers(256, 10 ** 6), st.integers(2, 32), st.integers(0, 2 ** 32 - 1)),
        st.tuples(st.just("tail"), st.integers(1, 70000), st.sampled_from([0, 255, 256]), st.integers(1, 2 ** 31)),
        st.tuples(st.just("hdr"), st.integers(0, 7), st.integers(0, 255), st.just(0)),
    )

    for idx, (name, path) in enumerate(e2e_files):
        size = os.path.getsize(path)

        @hseed(sd * 1000 + 120 + idx)
        @settings(max_examples=per_file, database=None, deadline=None, report_multiple_bugs=False,
                  suppress_health_check=list(HealthCheck), phases=[Phase.generate, Phase.shrink])
        @given(fault)
        def prop(f):
            k, a, b, c = f
            if k in ("flip", "burst"):
                a = 256 + (a - 256) % max(1, size * 8 - 256 - 32)
            if k == "trunc":
                a = a % size
            if k == "burst":
                c = (c | 1 | (1 << (b - 1))) & ((1 << b) - 1)
            s, why = e2e(ctx, path, k, a, b, c)
            if s == "na":
                return
            ev.case()
            ev.cls("e2e_" + k)
            if s == "inconclusive":
                ev.inconclusive += 1
                return
            if s == "fail":
                state["f"] = (name, [k, a, b, c], why)
                raise AssertionError(why)

        try:
            prop()
        except AssertionError:
            nm, flt, why = state["f"]
            again = [e2e(ctx, path, *flt)[0] for _ in range(3)]
            if all(x == "fail" for x in again):
                p = common.save_replay(PROP, "e2e_%s_%s_%d.json" % (nm, flt[0], flt[1]),
                                       json.dumps({"source_name": nm, "fault": flt}, indent=1))
                print("C12: nano_vm on damaged %s: %s" % (nm, why))
                common.report_violation(PROP, p)
                nviol += 1
            else:
                ev.inconclusive += 1
    ev.nontrivial_extra += ev.classes.get("e2e_flip", 0) + ev.classes.get("e2e_burst", 0) + ev.classes.get("e2e_trunc", 0) + \
        ev.classes.get("e2e_tail", 0) + ev.classes.get("e2e_hdr", 0)
    ev.exhaustive = True
    ev.extra["exhaustive_dimensions"] = "single-bit flips of the body, truncation lengths, magic/version byte values - complete for the files used; bursts: complete over (offset stride, length) with sampled interior patterns"
    ev.assumptions = ["CRC32 collision by a sampled random tail/burst pattern has probability 2^-32 per case and would be a reported (true) violation of the statement as written"]
    common.finish(ev, nviol)
