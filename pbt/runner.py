"""runner - compile and run nanolang programs on each engine, classify how the run ended."""
import os
import re
import shutil
import signal

from . import common

SIGNAMES = {signal.SIGABRT: "SIGABRT", signal.SIGSEGV: "SIGSEGV", signal.SIGFPE: "SIGFPE", signal.SIGBUS: "SIGBUS",
            signal.SIGILL: "SIGILL", signal.SIGPIPE: "SIGPIPE", signal.SIGKILL: "SIGKILL"}

VM_INTERNAL = [b"Type error", b"Undefined", b"Instruction decode error", b"Invalid opcode", b"Stack overflow",
               b"Stack underflow", b"stack", b"codegen failed", b"Codegen failed", b"bytecode verification failed",
               b"Bytecode verification failed", b"Invalid function", b"Unknown"]
VM_DOCUMENTED = [b"Assertion failed", b"Index out of bounds", b"Call stack overflow", b"Division by zero", b"assertion"]
FRONTEND_REJECT = [b"type check failed", b"Type checking failed", b"parse failed", b"Parsing failed", b"lexer failed",
                   b"Lexing failed", b"Parse error", b"Shadow test", b"shadow test"]
SANITIZER = [b"AddressSanitizer", b"runtime error:", b"UndefinedBehaviorSanitizer", b"LeakSanitizer", b"ThreadSanitizer"]


class Result:
    __slots__ = ("cls", "rc", "out", "err", "detail", "stage")

    def __init__(self, cls, rc, out, err, detail="", stage="run"):
        self.cls = cls          # normal | documented_fault | internal_failure | rejected | inconclusive
        self.rc = rc
        self.out = out
        self.err = err
        self.detail = detail
        self.stage = stage

    def __repr__(self):
        return "Result(%s rc=%s stage=%s %s out=%r err=%r)" % (self.cls, self.rc, self.stage, self.detail,
                                                               self.out[-200:], self.err[-300:])

    def brief(self):
        return {"cls": self.cls, "rc": self.rc, "stage": self.stage, "detail": self.detail,
                "out": self.out[-400:].decode("utf-8", "replace"), "err": self.err[-600:].decode("utf-8", "replace")}


class Tools:
    def __init__(self, flavour="plain", native_san=False):
        self.flavour = flavour
        b = common.build(flavour)
        self.bdir = b
        self.nanoc = os.path.join(b, "bin", "nanoc")
        self.virt = os.path.join(b, "bin", "nano_virt")
        self.vm = os.path.join(b, "bin", "nano_vm")
        self.cop = os.path.join(b, "bin", "nano_cop")
        self.vmd = os.path.join(b, "bin", "nano_vmd")
        self.env = dict(os.environ)
        self.env["NANO_CC"] = os.path.join(common.VERIF, "tools", "nanocc")
        self.env["NANOCC_CACHE"] = os.path.join(b, "rtcache")
        self.env["ASAN_OPTIONS"] = "detect_leaks=0:abort_on_error=0:handle_abort=0"
        self.env["UBSAN_OPTIONS"] = "print_stacktrace=0"
        self.env.pop("NANO_MODULE_PATH", None)
        if native_san:
            self.env["NANOCC_REAL"] = "clang"
            self.env["NANOCC_EXTRA"] = "-g -O1 -fsanitize=address,undefined -fno-sanitize-recover=undefined -fno-omit-frame-pointer -Wno-unused-command-line-argument"
        self.env["PATH"] = os.path.join(b, "bin") + ":" + self.env.get("PATH", "")

    def prewarm(self, d):
        """Compile one trivial program so that the runtime archive exists before workers fork."""
        p = os.path.join(d, "warm.nano")
        with open(p, "w") as fh:
            fh.write("fn main() -> int {\n    return 0\n}\nshadow main { assert true }\n")
        r = self.native_compile(p, os.path.join(d, "warm.bin"), d, timeout=300)
        if r is not None:
            raise SystemExit("prewarm: native compile of a trivial program failed: %r" % (r,))


def sig_of(rc):
    return SIGNAMES.get(-rc, "signal %d" % -rc) if rc is not None and rc < 0 else None


def has_any(buf, pats):
    return any(p in buf for p in pats)


VM_RT = re.compile(rb"^runtime error: (.*)$", re.M)
VM_DOC_RE = re.compile(rb"Assertion failed|Call depth exceeded|Call stack overflow|[Ii]ndex.*out of|out of bounds|Division by zero|division by zero")
UBSAN_RE = re.compile(rb"\.[ch]:\d+:\d+: runtime error:")


def sanitizer_report(err):
    return b"AddressSanitizer" in err or b"LeakSanitizer" in err or b"ThreadSanitizer" in err or bool(UBSAN_RE.search(err))


def classify_vm(rc, out, err, to):
    if to:
        return Result("inconclusive", rc, out, err, "timeout")
    if sanitizer_report(err):
        return Result("internal_failure", rc, out, err, "sanitizer report")
    if rc is not None and rc < 0:
        return Result("internal_failure", rc, out, err, sig_of(rc))
    m = VM_RT.search(err)
    if m:
        if VM_DOC_RE.search(m.group(1)):
            return Result("documented_fault", rc, out, err, "vm fault: " + m.group(1).decode("utf-8", "replace"))
        return Result("internal_failure", rc, out, err, "vm internal error: " + m.group(1).decode("utf-8", "replace"))
    if b"internal error:" in err or b"error: codegen failed" in err or b"error: serialization failed" in err:
        return Result("internal_failure", rc, out, err, "codegen/verify", "compile")
    if rc != 0 and has_any(err, [b"error: lexer failed", b"error: parser failed", b"error: module loading failed",
                                  b"error: type check failed", b"error: cannot read"]):
        return Result("rejected", rc, out, err, "front end", "compile")
    return Result("normal", rc, out, err)


def native_compile_result(rc, out, err, to):
    """None if the compile succeeded, else a Result."""
    if to:
        return Result("inconclusive", rc, out, err, "compile timeout", "compile")
    if rc == 0:
        return None
    if sanitizer_report(err):
        return Result("internal_failure", rc, out, err, "sanitizer report in compiler", "compile")
    if rc < 0:
        return Result("internal_failure", rc, out, err, "compiler " + sig_of(rc), "compile")
    if b"C compilation failed" in err or b"Transpilation failed" in err or b"transpil" in err.lower():
        return Result("internal_failure", rc, out, err, "C compilation / transpilation failed", "compile")
    return Result("rejected", rc, out, err, "front end", "compile")


def classify_native_run(rc, out, err, to):
    if to:
        return Result("inconclusive", rc, out, err, "timeout")
    if sanitizer_report(err):
        return Result("internal_failure", rc, out, err, "sanitizer report")
    if rc < 0:
        s = sig_of(rc)
        if s == "SIGABRT" and (b"Assertion" in err or b"assert" in err or b"out of bounds" in err or b"bounds" in err):
            return Result("documented_fault", rc, out, err, s)
        if s == "SIGFPE":
            return Result("documented_fault", rc, out, err, s)
        return Result("internal_failure", rc, out, err, s)
    if rc != 0 and (b"Assertion failed" in err or b"out of bounds" in err or b"Index out of bounds" in err):
        return Result("documented_fault", rc, out, err, "runtime check")
    return Result("normal", rc, out, err)


# bind compile helpers as methods
def _native_compile(self, src_path, exe, cwd, timeout=120, extra=()):
    if os.path.exists(exe):
        os.unlink(exe)
    rc, out, err, to = common.run([self.nanoc, src_path, "-o", exe] + list(extra), timeout=timeout, cwd=cwd, env=self.env)
    r = native_compile_result(rc, out, err, to)
    if r is None and not os.path.exists(exe):
        return Result("internal_failure", rc, out, err, "compiler exit 0 but no executable", "compile")
    return r


def _run_native(self, src_path, cwd, timeout=20, keep=False):
    exe = src_path[:-5] + ".bin"
    r = self.native_compile(src_path, exe, cwd)
    if r is not None:
        return r
    rc, out, err, to = common.run([exe], timeout=timeout, cwd=cwd, env=self.env)
    if not keep:
        try:
            os.unlink(exe)
        except OSError:
            pass
    return classify_native_run(rc, out, err, to)


def _run_vm(self, src_path, cwd, timeout=20):
    rc, out, err, to = common.run([self.virt, src_path, "--run"], timeout=timeout, cwd=cwd, env=self.env)
    return classify_vm(rc, out, err, to)


def _emit_nvm(self, src_path, out_path, cwd, timeout=30):
    if os.path.exists(out_path):
        os.unlink(out_path)
    rc, out, err, to = common.run([self.virt, src_path, "--emit-nvm", "-o", out_path], timeout=timeout, cwd=cwd, env=self.env)
    return rc, out, err, to


Tools.native_compile = _native_compile
Tools.run_native = _run_native
Tools.run_vm = _run_vm
Tools.emit_nvm = _emit_nvm


def write_src(d, name, text):
    p = os.path.join(d, name)
    with open(p, "w", encoding="utf-8", newline="") as fh:
        fh.write(text)
    return p
