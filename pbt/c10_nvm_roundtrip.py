"""C10 - stored and embedded bytecode modules run exactly like the in-memory module.

(a) rapidcheck probe (probes/nvm_probe.cc, ASan/UBSan): modules built directly through the public nvm_* API
    (0-200 strings incl. empty / duplicate adds / bytes 0x80-0xFF / long, 0-70 functions with arbitrary field values,
    code 0-70 KiB, imports with parameter tables, debug entries, arbitrary flags / entry point):
    deserialize(serialize(m)) == m field by field, serialize idempotent on the reloaded module, stored CRC consistent.
    The same round trip on every compiler-produced module: serialize(load(file)) == file.
(b) differential on generated programs: stdout + exit status of `nano_virt p --run`, `nano_vm p.nvm` and the native
    wrapper `nano_virt p -o w && ./w` are identical - for exit statuses over 0..255 and for runs ending in a fault.
"""
import json
import os
import subprocess
import sys

from . import common, harness, progen, refeval, runner, signatures
from .common import Evidence
from .harness import CaseFailure

PROP = "C10"
RULE = ("(a) API-built modules (rapidcheck): non-trivial = >= 2 kinds of section content and (an empty string or imports); "
        "distinct by hash of the serialized image. (b) progen programs: three runners compared; non-trivial = exit status "
        "!= 0, or globals present (module has an __init__ function), or >= 3 functions; distinct by source hash")


class Ctx:
    pass


def make_ctx(widx, tier, opts):
    ctx = Ctx()
    ctx.tools = runner.Tools("plain")
    ctx.dir = os.path.join(common.scratch(), "w%d" % widx)
    os.makedirs(ctx.dir, exist_ok=True)
    ctx.features, ctx.gated = harness.features_for(PROP)
    ctx.size = 3
    ctx.widx = widx
    ctx.probe = opts.get("probe")
    # the OS builtins that need no import take string arguments through the import table of the stored module
    ctx.tools.env = dict(ctx.tools.env, C10_VAR="abcde", C10_EMPTY="")
    return ctx


OS_SNIPPETS = ['(println (getenv "C10_VAR"))', '(println (str_length (getenv "C10_UNSET_VARIABLE")))', '(println (== (getenv "C10_VAR") "abcde"))',
               '(println (+ "cwd>" (int_to_string (str_length (getcwd)))))', '(println (str_length (getenv "C10_EMPTY")))',
               '(println (+ (getenv "C10_VAR") (getenv "C10_VAR")))']


def strategy(ctx):
    from hypothesis import strategies as st
    return st.tuples(progen.programs(features=ctx.features, size=ctx.size), st.lists(st.sampled_from(OS_SNIPPETS), min_size=0, max_size=3))


def render(case):
    prog, snippets = case
    src = progen.print_program(prog)
    if snippets:
        head = "fn main() -> int {\n"
        i = src.rindex(head) + len(head)
        src = src[:i] + "".join("    %s\n" % x for x in snippets) + src[i:]
    return src


def three_way(ctx, src, name="p.nano"):
    p = runner.write_src(ctx.dir, name, src)
    nvm = p[:-5] + ".nvm"
    w = p[:-5] + ".wrap"
    for f in (nvm, w):
        if os.path.exists(f):
            os.unlink(f)
    run = ctx.tools.run_vm(p, ctx.dir)
    if run.cls == "inconclusive":
        return "inconclusive", "", {}
    if run.cls == "rejected" or (run.cls == "internal_failure" and run.stage == "compile"):
        return "not_accepted", "", {}
    rc, out, err, to = ctx.tools.emit_nvm(p, nvm, ctx.dir)
    if to:
        return "inconclusive", "", {}
    if rc != 0 or not os.path.exists(nvm):
        return "differ", "--emit-nvm failed for a program --run executed", {"err": err[-300:].decode("utf-8", "replace")}
    r2 = common.run([ctx.tools.vm, nvm], timeout=20, cwd=ctx.dir, env=ctx.tools.env)
    vmf = runner.classify_vm(r2[0], r2[1], fix_vm_stderr(r2[2]), r2[3])
    rc, out, err, to = common.run([ctx.tools.virt, p, "-o", w], timeout=120, cwd=ctx.dir, env=ctx.tools.env)
    if to:
        return "inconclusive", "", {}
    if rc != 0 or not os.path.exists(w):
        return "differ", "wrapper generation failed for a program --run executed", {"err": err[-400:].decode("utf-8", "replace")}
    r3 = common.run([w], timeout=20, cwd=ctx.dir, env=ctx.tools.env)
    os.unlink(w)
    if r2[3] or r3[3]:
        return "inconclusive", "", {}
    obs = {"run": (run.out, run.rc), "nano_vm": (r2[1], r2[0]), "wrapper": (r3[1], r3[0])}
    if obs["run"] != obs["nano_vm"]:
        return "differ", "nano_vm file differs from --run (exit %s vs %s)" % (r2[0], run.rc), obs
    if obs["run"] != obs["wrapper"]:
        return "differ", "native wrapper differs from --run (exit %s vs %s)" % (r3[0], run.rc), obs
    # the compiler-produced file itself must be a fixed point of load/serialize
    if ctx.probe:
        r = subprocess.run([ctx.probe, "rtfile", nvm], capture_output=True, text=True, env=dict(os.environ, ASAN_OPTIONS="detect_leaks=0"))
        if r.returncode != 0:
            return "differ", "module round trip: " + (r.stdout.strip() or r.stderr[-300:]), obs
    return "same", "", obs


def fix_vm_stderr(err):
    # nano_vm prints 'Runtime error: X' where nano_virt prints 'runtime error: X'
    return err.replace(b"Runtime error:", b"runtime error:")


def run_case(ctx, case, ev):
    prog = case[0]
    ref = refeval.run(prog)
    src = render(case)
    if case[1]:
        ev.cls("with_os_builtin_calls")
    for k, v in prog["excluded"].items():
        ev.exclude(k, v)
    if ref.kind in ("budget",):
        ev.cls("discarded_ref_budget")
        return
    v, detail, obs = three_way(ctx, src)
    rc = obs.get("run", (b"", 0))[1] if obs else 0
    nontrivial = v == "same" and (rc != 0 or bool(prog["globals"]) or len(prog["funcs"]) >= 3)
    ev.case(src, nontrivial)
    ev.cls("verdict_" + v)
    if v == "same":
        ev.cls("exit_nonzero" if rc else "exit_zero")
    if v == "inconclusive":
        ev.inconclusive += 1
    if nontrivial and len(ev.samples) < 2 and ev.evaluations % 9 == 4:
        ev.sample({"source": src[:2000], "exit": rc})
    if v == "differ":
        raise CaseFailure(detail, {k: [x[0][-300:].decode("utf-8", "replace"), x[1]] for k, x in obs.items()} if obs and "run" in obs else obs)


def describe_failure(ctx, case, cf):
    return {"src": render(case), "detail": cf.detail, "payload": cf.payload, "sigs": []}


FAULT_PROGRAMS = {
    "assert_fails": 'fn main() -> int {\n    (println "before")\n    assert (== 1 2)\n    (println "after")\n    return 0\n}\nshadow main { assert true }\n',
    "exit_255": 'fn main() -> int {\n    (println "x")\n    return 255\n}\nshadow main { assert true }\n',
    "exit_256": 'fn main() -> int {\n    return 256\n}\nshadow main { assert true }\n',
    "exit_negative": 'fn main() -> int {\n    return -1\n}\nshadow main { assert true }\n',
    "globals_init": 'let G: int = 41\nlet S: string = "gs"\nfn main() -> int {\n    (println (+ G 1))\n    (println S)\n    return 7\n}\nshadow main { assert true }\n',
    "extern_call": 'fn main() -> int {\n    (println (sqrt 16.0))\n    (println (is_digit 53))\n    return 2\n}\nshadow main { assert true }\n',
    "empty_string_last": 'fn main() -> int {\n    (println "digits:")\n    (println (+ "-" "01234"))\n    (println "")\n    return 0\n}\nshadow main { assert true }\n',
}


def replay(path):
    ctx = make_ctx(0, "quick", {"probe": common.build_probe("nvm_probe", "asan")})
    src = open(path, encoding="utf-8", newline="").read()
    v, detail, obs = three_way(ctx, src, "replay.nano")
    print("replay:", v, detail, obs)
    return 1 if v == "differ" else 0


def main(tier):
    ev = Evidence(PROP, tier, "exploration", RULE)
    probe = common.build_probe("nvm_probe", "asan")
    ctx = make_ctx(99, tier, {"probe": probe})
    nviol = 0
    sd = common.seed()
    for f in common.open_findings(PROP):
        rp = os.path.join(common.VERIF, f["replay"][PROP])
        v, detail, obs = three_way(ctx, open(rp).read(), "known.nano")
        if v == "differ":
            common.report_known(PROP, "%s [%s]" % (f["what"], f["id"]))
            ev.known.append(f["id"])
    for f in common.fixed_findings(PROP):
        rp = os.path.join(common.VERIF, f["replay"][PROP])
        v, detail, obs = three_way(ctx, open(rp).read(), "fixed.nano")
        ev.cls("fixed_regression_replayed")
        if v == "differ":
            print("C10: fixed finding %s is back: %s" % (f["id"], detail))
            common.report_violation(PROP, rp)
            nviol += 1
    # (a) API-built modules
    ms = 6000 if tier == "quick" else 200000
    r = subprocess.run([probe, "rt"], capture_output=True, text=True,
                       env=dict(os.environ, RC_PARAMS="seed=%d max_success=%d max_size=200" % (sd + 1, ms), ASAN_OPTIONS="detect_leaks=0"))
    summ = None
    fails = []
    for line in r.stdout.splitlines():
        if line.startswith("SUMMARY "):
            summ = json.loads(line[8:])
        elif line.startswith("FAIL "):
            fails.append(line[5:])
    if summ is None:
        p = common.save_replay(PROP, "probe_crash_seed%d.txt" % sd, "nvm_probe rt died (sanitizer report or crash)\nRC_PARAMS=seed=%d max_success=%d max_size=200\n%s\n" % (sd + 1, ms, r.stderr[-3000:]))
        print("C10: round-trip probe died")
        common.report_violation(PROP, p)
        nviol += 1
    else:
        ev.evaluations += summ["evaluations"]
        ev.nontrivial_extra += summ["distinct_nontrivial"]
        for k, v in summ["classes"].items():
            ev.cls("api_module_" + k, v)
        for s in summ["samples"][:2]:
            ev.sample({"api_built_module": s})
    for f in fails:
        p = common.save_replay(PROP, "api_roundtrip_seed%d.txt" % sd, "nvm_probe rt with RC_PARAMS='seed=%d max_success=%d max_size=200'\n%s\n" % (sd + 1, ms, f))
        print("C10: API-built module round trip: %s" % f)
        common.report_violation(PROP, p)
        nviol += 1
    # fixed fault/exit-status programs
    for name, src in FAULT_PROGRAMS.items():
        v, detail, obs = three_way(ctx, src, name + ".nano")
        ev.case(src, v == "same")
        ev.cls("fixed_program_" + v)
        if v == "differ":
            p = common.save_replay(PROP, "fixed_%s.nano" % name, src)
            print("C10: %s: %s %s" % (name, detail, obs))
            common.report_violation(PROP, p)
            nviol += 1
    # (b) generated programs
    total = 240 if tier == "quick" else 4000
    results = harness.run_workers("pbt.c10_nvm_roundtrip", tier, total, opts={"probe": probe})
    for r in results:
        ev.merge(r["evidence"])
        if r["error"]:
            print("C10: worker %d harness error (not a verdict):\n%s" % (r["widx"], r["error"]), file=sys.stderr)
            ev.cls("worker_errors")
        fl = r["failure"]
        if fl:
            again = [three_way(ctx, fl["src"], "confirm.nano")[0] for _ in range(3)]
            if not all(a == "differ" for a in again):
                ev.inconclusive += 1
                continue
            p = common.save_replay(PROP, "runners_seed%d_w%d.nano" % (sd, r["widx"]), fl["src"])
            print("C10: %s\n  %s" % (fl["detail"], json.dumps(fl["payload"])[:800]))
            common.report_violation(PROP, p)
            nviol += 1
    if ev.classes.get("worker_errors"):
        ev.write()
        sys.exit(2)
    common.finish(ev, nviol)
