"""Shared harness for program-level checks: parallel Hypothesis workers, shrinking, confirmation,
ledger gates / signatures, evidence merging."""
import hashlib
import json
import multiprocessing as mp
import os
import sys
import time
import traceback

from hypothesis import given, settings, seed as hseed, HealthCheck, Phase

from . import common, progen, refeval, runner


class CaseFailure(Exception):
    def __init__(self, detail, payload=None):
        Exception.__init__(self, detail)
        self.detail = detail
        self.payload = payload or {}


def features_for(prop, base=None):
    """Generator features = base (default all) minus gates of open ledger entries."""
    F = set(progen.ALL_FEATURES if base is None else base)
    off = set()
    for f in common.load_ledger():
        if f["status"] == "open" and (not f.get("gate_for") or prop in f["gate_for"]):
            for g in f.get("gates", []):
                off.add(g)
    return F - off, sorted(off & set(progen.ALL_FEATURES if base is None else base))


def _worker(args):
    (modname, widx, ncases, tier, sd, opts) = args
    import importlib
    mod = importlib.import_module(modname)
    ev = common.Evidence(mod.PROP, tier)
    res = {"widx": widx, "failure": None, "error": None}
    try:
        ctx = mod.make_ctx(widx, tier, opts)
        state = {}
        shrink_budget = float(os.environ.get("VERIF_SHRINK_BUDGET", 40 if tier == "quick" else 150))

        @hseed(sd * 1000 + widx)
        @settings(max_examples=ncases, database=None, deadline=None, derandomize=False, report_multiple_bugs=False,
                  suppress_health_check=list(HealthCheck), phases=[Phase.generate, Phase.shrink])
        @given(mod.strategy(ctx))
        def prop(case):
            # shrinking budget: once it is used up every further candidate "passes", so the shrinker stops quickly;
            # the smallest failing case seen so far is kept in state["last"]
            if "t_fail" in state and time.time() - state["t_fail"] > shrink_budget:
                state["cut"] = True
                return
            try:
                mod.run_case(ctx, case, ev)
            except CaseFailure as cf:
                state.setdefault("t_fail", time.time())
                state["last"] = (case, cf)
                raise

        try:
            prop()
        except CaseFailure:
            case, cf = state["last"]
            res["failure"] = mod.describe_failure(ctx, case, cf)
        except Exception:  # Flaky (shrink budget cut) or a generator / harness error
            if "last" in state:
                case, cf = state["last"]
                res["failure"] = mod.describe_failure(ctx, case, cf)
            else:
                res["error"] = traceback.format_exc()[-3000:]
    except Exception:
        res["error"] = traceback.format_exc()[-3000:]
    res["evidence"] = ev.partial()
    return res


def run_workers(modname, tier, total_cases, opts=None, nworkers=None):
    nworkers = nworkers or common.NCPU
    per = max(1, (total_cases + nworkers - 1) // nworkers)
    sd = common.seed()
    jobs = [(modname, w, per, tier, sd, opts or {}) for w in range(nworkers)]
    ctx = mp.get_context("fork")
    with ctx.Pool(nworkers) as pool:
        return pool.map(_worker, jobs, chunksize=1)


def src_hash(src):
    return hashlib.sha1(src.encode("utf-8")).hexdigest()[:12]


def walk_stmts(body, loop=None):
    """Yields (stmt, nearest_loop_kind)."""
    for s in body:
        yield s, loop
        k = s[0]
        if k == "if":
            yield from walk_stmts(s[2], loop)
            if s[3]:
                yield from walk_stmts(s[3], loop)
        elif k == "while":
            yield from walk_stmts(s[2], "while")
        elif k == "for":
            yield from walk_stmts(s[4], "for")
        elif k == "match":
            for (_v, _b, body2) in s[3]:
                yield from walk_stmts(body2, loop)


def walk_exprs(e):
    if isinstance(e, tuple):
        yield e
        for x in e:
            yield from walk_exprs(x)
    elif isinstance(e, list):
        for x in e:
            yield from walk_exprs(x)


def prog_stmts(prog):
    for f in prog["funcs"]:
        yield from walk_stmts(f["body"])


def prog_exprs(prog):
    for f in prog["funcs"]:
        for s, _ in walk_stmts(f["body"]):
            for x in s[1:]:
                if isinstance(x, (tuple, list)):
                    yield from walk_exprs(x)
    for (_n, _t, e) in prog["globals"]:
        yield from walk_exprs(e)
