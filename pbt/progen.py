"""progen - typed generator of documented core-language nanolang programs (Hypothesis strategies),
an AST, and two printers (prefix / infix spelling).

Everything is built well-typed, terminating and defined *by construction*:
  * while loops carry a dedicated counter and a literal bound; for loops iterate literal ranges
  * recursion carries a decreasing fuel parameter
  * divisors are non-zero, non -1 literals or (+ 1 (abs (% e k))) templates
  * array indices are (% (abs (% e 9973)) (array_length a)) on arrays known to be non-empty
The reference evaluator (refeval) still checks definedness and the step budget; rejected programs are counted.

AST (tuples):
  types : 'int' 'bool' 'string' 'float' ('array', T) ('struct', N) ('enum', N) ('union', N) ('tuple', (T..)) ('fn', (T..), R)
  exprs : ('int', v) ('bool', b) ('str', bytes) ('float', f) ('var', n) ('bin', op, a, b, style) ('un', op, a, style)
          ('call', f, [args]) ('bi', name, [args]) ('field', e, f) ('mk', S, [(f, e)]) ('tup', [e]) ('tidx', e, i)
          ('enum', E, V) ('umk', U, V, [(f, e)]) ('arr', T, [e]) ('callv', e, [args]) ('fnref', f) ('cond', [(c, e)], e_else)
  stmts : ('let', n, T, e, mut) ('set', n, e) ('if', c, then, else|None) ('while', c, body) ('for', v, lo, hi, body)
          ('break',) ('continue',) ('return', e|None) ('println', e) ('print', e) ('assert', e) ('expr', e)
          ('match', e, U, [(V, binder, body)]) ('block', body)
  prog  : dict(structs, enums, unions, globals, funcs, order)
"""
from hypothesis import strategies as st

INT64_MIN = -(2 ** 63)
INT64_MAX = 2 ** 63 - 1

ARITH = ["+", "-", "*", "/", "%"]
CMP = ["==", "!=", "<", "<=", ">", ">="]
LOGIC = ["and", "or"]

# every optional feature; a check passes the subset it wants, the ledger's open gates are subtracted
ALL_FEATURES = {
    "strings", "floats", "while", "for", "break", "continue", "functions", "recursion", "arrays", "structs",
    "enums", "unions", "tuples", "globals", "fnvalues", "infix", "nested_struct", "array_string", "array_bool",
    "print_stmt", "cond", "int_boundaries", "wrapping", "divmod", "neg_divmod", "unary", "str_builtins", "array_mut",
    "array_pop", "early_return", "shadowing", "else_if", "assert_stmt", "array_pass", "struct_pass",
    "string_escapes", "effectful_logic", "continue_in_for", "print_enum", "min_max", "array_slice",
    "array_struct", "float_arith", "deep_expr", "array_alias", "str_substring", "char_at", "global_shadow",
    "unused_results", "long_strings", "self_compare", "tuple_pass", "effectful_args", "shadow_type_change", "out_of_scope_reference", "array_float", "struct_array_field", "fn_returning_composite", "print_float", "loop_nest", "global_init_expr", "guard_idiom", "ext_builtins", "field_of_call", "global_init_call", "enum_wide_values", "enum_ordering", "exit_in_match_arm", "string_lifetimes", "shared_field_names", "hashmaps",
}


def t_array(t):
    return ("array", t)


PRINTABLE_FLOAT = [False]     # set per draw by programs(): feature "print_float"


def printable(t):
    return t in ("int", "bool", "string") or (t == "float" and PRINTABLE_FLOAT[0])


def type_str(t):
    if isinstance(t, str):
        return t
    k = t[0]
    if k == "array":
        return "array<%s>" % type_str(t[1])
    if k in ("struct", "enum", "union"):
        return t[1]
    if k == "tuple":
        return "(" + ", ".join(type_str(x) for x in t[1]) + ")"
    if k == "fn":
        return "fn(" + ", ".join(type_str(x) for x in t[1]) + ") -> " + type_str(t[2])
    if k == "hashmap":
        return "HashMap<%s, %s>" % (type_str(t[1]), type_str(t[2]))
    raise ValueError(t)


# ----------------------------------------------------------------------------- printers
PRINT_OPTS = {"postfix_on_right_operand": True, "infix_chains": True, "bare_unary": True}
PRINT_STATS = {}

def esc_str(b):
    """bytes -> source literal body. Only characters the lexer passes through unchanged are generated,
    plus explicit escape sequences when the feature is on (kept as ('esc', ..) markers inside the bytes)."""
    return b.decode("utf-8")


def p_expr(e, style_override=None, bare=False):
    """bare=True: the caller is a statement-level position where an infix chain needs no outer parentheses."""
    k = e[0]
    if k == "int":
        return str(e[1])
    if k == "bool":
        return "true" if e[1] else "false"
    if k == "str":
        return '"' + esc_str(e[1]) + '"'
    if k == "float":
        return fmt_float(e[1])
    if k == "var":
        return e[1]
    if k == "bin":
        style = style_override or e[4]
        if style == "i" and not PRINT_OPTS["postfix_on_right_operand"] and e[3][0] in ("field", "tidx", "enum"):
            # known parser finding: `a op b.f` groups as `(a op b).f`; spelled in prefix form while the gate is off
            PRINT_STATS["postfix_on_right_operand"] = PRINT_STATS.get("postfix_on_right_operand", 0) + 1
            style = "p"
        if style == "i":
            # a bare unary operator may lead the chain only where no "(" precedes it: "(-a + b)" is the prefix
            # application of "-" to "a + b" in this language
            body = p_infix_left(e[2], style_override, bare) + " " + e[1] + " " + p_operand_infix(e[3], style_override)
            return body if bare else "(" + body + ")"
        return "(" + e[1] + " " + p_expr(e[2], style_override) + " " + p_expr(e[3], style_override) + ")"
    if k == "un":
        style = style_override or e[3]
        if style == "i" and e[2][0] == "var" and PRINT_OPTS["bare_unary"]:
            # `not v` / `-v` without parentheses (only on a plain variable: the lexer folds `-5` into one token and
            # a postfix form after a unary operator is a separate known parser finding)
            if bare:
                return ("not " if e[1] == "not" else "-") + e[2][1]
        return "(" + e[1] + " " + p_expr(e[2], style_override) + ")"
    if k == "call":
        return "(" + " ".join([e[1]] + [p_expr(a, style_override) for a in e[2]]) + ")"
    if k == "bi":
        return "(" + " ".join([e[1]] + [p_expr(a, style_override) for a in e[2]]) + ")"
    if k == "field":
        return p_postfix_base(e[1], style_override) + "." + e[2]
    if k == "mk":
        return e[1] + " { " + ", ".join("%s: %s" % (f, p_expr(x, style_override)) for f, x in e[2]) + " }"
    if k == "tup":
        return "(" + ", ".join(p_expr(x, style_override) for x in e[1]) + ")"
    if k == "tidx":
        return p_postfix_base(e[1], style_override) + "." + str(e[2])
    if k == "enum":
        return e[1] + "." + e[2]
    if k == "umk":
        return e[1] + "." + e[2] + " { " + ", ".join("%s: %s" % (f, p_expr(x, style_override)) for f, x in e[3]) + " }"
    if k == "arr":
        return "[" + ", ".join(p_expr(x, style_override) for x in e[2]) + "]"
    if k == "callv":
        return "(" + " ".join([p_expr(e[1], style_override)] + [p_expr(a, style_override) for a in e[2]]) + ")"
    if k == "fnref":
        return e[1]
    if k == "cond":
        return "(cond " + " ".join("(%s %s)" % (p_expr(c, style_override), p_expr(v, style_override)) for c, v in e[1]) + \
            " (else %s))" % p_expr(e[2], style_override)
    raise ValueError(e)


def p_operand_infix(e, so):
    # right operands of infix operators are always atoms or parenthesised forms
    return p_expr(e, so)


def p_infix_left(e, so, lead_ok=False):
    """Left operand of an infix operator: an infix chain continues without parentheses (equal precedence, left to
    right: a op1 b op2 c == (op2 (op1 a b) c)); a bare unary form binds to its own operand only."""
    if e[0] == "bin" and (so or e[4]) == "i" and PRINT_OPTS["infix_chains"]:
        if not (not PRINT_OPTS["postfix_on_right_operand"] and e[3][0] in ("field", "tidx", "enum")):
            return p_infix_left(e[2], so, lead_ok) + " " + e[1] + " " + p_operand_infix(e[3], so)
    if e[0] == "un" and (so or e[3]) == "i" and e[2][0] == "var" and PRINT_OPTS["bare_unary"] and lead_ok:
        return ("not " if e[1] == "not" else "-") + e[2][1]
    return p_expr(e, so)


def p_postfix_base(e, so):
    if e[0] in ("var", "field", "tidx"):
        return p_expr(e, so)
    return p_expr(e, so)  # calls are already parenthesised


def fmt_float(f):
    s = repr(float(f))
    if "e" in s or "inf" in s or "nan" in s:
        s = "%.6f" % f
    if "." not in s:
        s += ".0"
    if s.startswith("-"):
        return "(- 0.0 %s)" % s[1:]
    return s


def rightmost(e):
    while e[0] == "bin":
        e = e[3]
    return e


def bare_cond_ok(e):
    """A bare condition directly followed by "{" must not end in `Upper.Upper` (enum variant / struct-like name):
    the parser reads `E.V {` as a union construction."""
    return bare_ok(e) and rightmost(e)[0] not in ("enum", "mk", "umk", "var", "field")


def bare_ok(e):
    """Statement-level expression positions print an infix chain without outer parentheses when the AST node says so
    (style 'i' + the 'bare' marker chosen by the generator: a 6th/5th tuple element)."""
    if not PRINT_OPTS["infix_chains"]:
        return False
    if e[0] == "bin":
        return len(e) > 5 and e[5] == "bare"
    if e[0] == "un":
        return len(e) > 4 and e[4] == "bare"
    return False


def p_block(body, ind, so=None):
    out = []
    for s in body:
        out += p_stmt(s, ind, so)
    return out


def p_stmt(s, ind, so=None):
    pad = "    " * ind
    k = s[0]
    if k == "let":
        return ["%slet %s%s: %s = %s" % (pad, "mut " if s[4] else "", s[1], type_str(s[2]), p_expr(s[3], so, bare_ok(s[3])))]
    if k == "set":
        return ["%sset %s %s" % (pad, s[1], p_expr(s[2], so, bare_ok(s[2])))]
    if k == "if":
        out = ["%sif %s {" % (pad, p_expr(s[1], so, bare_cond_ok(s[1])))] + p_block(s[2], ind + 1, so)
        els = s[3]
        while els is not None:
            if len(els) == 1 and els[0][0] == "if" and len(els[0]) > 4 and els[0][4] == "elif":
                out.append("%s} else if %s {" % (pad, p_expr(els[0][1], so, bare_cond_ok(els[0][1]))))
                out += p_block(els[0][2], ind + 1, so)
                els = els[0][3]
            else:
                out.append("%s} else {" % pad)
                out += p_block(els, ind + 1, so)
                els = None
        out.append("%s}" % pad)
        return out
    if k == "while":
        return ["%swhile %s {" % (pad, p_expr(s[1], so, bare_cond_ok(s[1])))] + p_block(s[2], ind + 1, so) + ["%s}" % pad]
    if k == "for":
        return ["%sfor %s in (range %s %s) {" % (pad, s[1], p_expr(s[2], so), p_expr(s[3], so))] + \
            p_block(s[4], ind + 1, so) + ["%s}" % pad]
    if k == "break":
        return [pad + "break"]
    if k == "continue":
        return [pad + "continue"]
    if k == "return":
        return [pad + "return" + ("" if s[1] is None else " " + p_expr(s[1], so, bare_ok(s[1])))]
    if k == "println":
        return ["%s(println %s)" % (pad, p_expr(s[1], so))]
    if k == "print":
        return ["%s(print %s)" % (pad, p_expr(s[1], so))]
    if k == "assert":
        return ["%sassert %s" % (pad, p_expr(s[1], so, bare_ok(s[1])))]
    if k == "expr":
        return [pad + p_expr(s[1], so)]
    if k == "match":
        out = ["%smatch %s {" % (pad, p_expr(s[1], so))]
        for (v, b, body) in s[3]:
            out.append("%s    %s(%s) => {" % (pad, v, b))
            out += p_block(body, ind + 2, so)
            out.append("%s    }" % pad)
        out.append("%s}" % pad)
        return out
    raise ValueError(s)


def print_program(prog, shadows=None, so=None):
    """shadows: optional dict fname -> list of stmts for the shadow body (default: assert true)."""
    out = []
    for (n, fields) in prog["structs"]:
        out.append("struct %s { %s }" % (n, ", ".join("%s: %s" % (f, type_str(t)) for f, t in fields)))
    for (n, variants) in prog["enums"]:
        out.append("enum %s { %s }" % (n, ", ".join("%s = %d" % (v, x) for v, x in variants)))
    for (n, variants) in prog["unions"]:
        out.append("union %s { %s }" % (n, ", ".join("%s { %s }" % (v, ", ".join("%s: %s" % (f, type_str(t)) for f, t in fs))
                                                      for v, fs in variants)))
    for (n, t, e) in prog["globals"]:
        out.append("let %s: %s = %s" % (n, type_str(t), p_expr(e, so)))
    out.append("")
    for f in prog["funcs"]:
        out.append("fn %s(%s) -> %s {" % (f["name"], ", ".join("%s: %s" % (p, type_str(t)) for p, t in f["params"]),
                                          type_str(f["ret"])))
        out += p_block(f["body"], 1, so)
        out.append("}")
        sh = (shadows or {}).get(f["name"])
        if sh is None:
            out.append("shadow %s { assert true }" % f["name"])
        else:
            out.append("shadow %s {" % f["name"])
            out += p_block(sh, 1, so)
            out.append("}")
        out.append("")
    return "\n".join(out) + "\n"


def _mentions_global(node):
    if isinstance(node, tuple):
        if len(node) >= 2 and node[0] in ("var", "set") and isinstance(node[1], str) and node[1].startswith("g_"):
            return True
        return any(_mentions_global(x) for x in node)
    if isinstance(node, list):
        return any(_mentions_global(x) for x in node)
    return False


def _type_names(t, acc):
    if isinstance(t, tuple):
        if t[0] in ("struct", "enum", "union"):
            acc.add(t[1])
        for x in t[1:]:
            if isinstance(x, (tuple, list)):
                for y in (x if isinstance(x, (list,)) or (isinstance(x, tuple) and x and isinstance(x[0], (tuple, str)) and t[0] in ("tuple", "fn")) else [x]):
                    _type_names(y, acc)
    return acc


def split_program(prog, k, allow_fnvalues=False):
    """Two-file rendering of the same program: all type definitions and the first k functions that mention no global
    variable go to module m.nano (pub), the rest stays in the main file, which imports every moved name.
    Returns (main_text, module_text, number of functions moved) or None if nothing can be moved."""
    def has_kind(t, kinds):
        if isinstance(t, tuple):
            if t[0] in kinds:
                return True
            return any(has_kind(x, kinds) for x in t[1:] if isinstance(x, (tuple, list)))
        if isinstance(t, list):
            return any(has_kind(x, kinds) for x in t)
        return False

    def has_node(node, kinds):
        if isinstance(node, tuple):
            if node and node[0] in kinds:
                return True
            return any(has_node(x, kinds) for x in node)
        if isinstance(node, list):
            return any(has_node(x, kinds) for x in node)
        return False

    def callees(node, acc):
        if isinstance(node, tuple):
            if len(node) >= 2 and node[0] == "call" and isinstance(node[1], str):
                acc.add(node[1])
            for x in node:
                callees(x, acc)
        elif isinstance(node, list):
            for x in node:
                callees(x, acc)
        return acc

    def fnrefs(node, acc):
        if isinstance(node, tuple):
            if len(node) == 2 and node[0] == "fnref":
                acc.add(node[1])
            for x in node:
                fnrefs(x, acc)
        elif isinstance(node, list):
            for x in node:
                fnrefs(x, acc)
        return acc

    # open finding native-fnref-to-imported-function: a function used as a value anywhere stays in the main file
    referenced = set()
    for f in prog["funcs"]:
        fnrefs(f["body"], referenced)
    moved = []
    moved_names = set()
    for f in prog["funcs"]:
        if len(moved) >= k:
            break
        if f["name"] == "main" or _mentions_global(f["body"]) or f["name"] in referenced:
            continue
        if not (callees(f["body"], set()) <= (moved_names | {f["name"]})):
            continue
        sig = [pt for _p, pt in f["params"]] + [f["ret"]]
        # observed, not a listed property: a module function with an enum- or union-typed parameter / result is refused by
        # the front end ('expects struct, got enum'); such functions stay in the main file
        if any(has_kind(t, ("enum", "union")) for t in sig):
            continue
        if not allow_fnvalues and (has_node(f["body"], ("fnref", "callv")) or any(has_kind(t, ("fn",)) for t in sig)):
            continue
        moved.append(f)
        moved_names.add(f["name"])
    if not moved and not (prog["structs"] or prog["enums"] or prog["unions"]):
        return None
    modp = dict(prog, globals=[], funcs=moved)
    mod = print_program(modp)
    lines = []
    for l in mod.split("\n"):
        if l.startswith(("struct ", "enum ", "union ", "fn ")):
            l = "pub " + l
        lines.append(l)
    names = [n for n, _ in prog["structs"]] + [n for n, _ in prog["enums"]] + [n for n, _ in prog["unions"]] + [f["name"] for f in moved]
    mainp = dict(prog, structs=[], enums=[], unions=[], funcs=[f for f in prog["funcs"] if f not in moved])
    head = ("from \"m.nano\" import %s\n" % ", ".join(names)) if names else ""
    return head + print_program(mainp), "\n".join(lines), len(moved)


# ----------------------------------------------------------------------------- generator state
class Gen:
    def __init__(self, draw, features, size):
        self.draw = draw
        self.F = features
        self.size = size
        self.ctr = 0
        self.structs = []   # (name, [(field, type)])
        self.enums = []
        self.unions = []
        self.globals = []   # (name, type, expr)
        self.funcs = []     # dict(name, params, ret, body, recursive)
        self.used = {}      # feature vector: name -> count
        self.pure = 0       # > 0: no calls are generated (argument positions after an effectful argument, gate effectful_args)
        self.excluded = {}

    # -- helpers
    def has(self, f):
        return f in self.F

    def use(self, f):
        self.used[f] = self.used.get(f, 0) + 1

    def gate(self, f):
        """True if the feature is on; records an exclusion when it is off only because of a gate."""
        if f in self.F:
            return True
        self.excluded[f] = self.excluded.get(f, 0) + 1
        return False

    def fresh(self, prefix="v"):
        self.ctr += 1
        return "%s_%d" % (prefix, self.ctr)

    def i(self, lo, hi):
        return self.draw(st.integers(lo, hi))

    def b(self):
        return self.draw(st.booleans())

    def pick(self, seq):
        return seq[self.draw(st.integers(0, len(seq) - 1))]

    def chance(self, num, den):
        return self.draw(st.integers(0, den - 1)) < num

    def style(self):
        if self.has("infix") and self.b():
            return "i"
        return "p"


class Scope:
    """Lexical environment: list of frames; each var: (type, mutable, meta)."""

    def __init__(self, parent=None):
        self.vars = {}
        self.parent = parent

    def lookup(self, n):
        s = self
        while s:
            if n in s.vars:
                return s.vars[n]
            s = s.parent
        return None

    def all_vars(self):
        out = {}
        chain = []
        s = self
        while s:
            chain.append(s)
            s = s.parent
        for s in reversed(chain):
            out.update(s.vars)
        return out

    def of_type(self, t, mutable=None):
        return [n for n, v in self.all_vars().items() if v[0] == t and (mutable is None or v[1] == mutable)]


# ----------------------------------------------------------------------------- literals
SMALL = [0, 1, 2, 3, 5, 7, 10, -1, -2, -7, 42, 100, 255, 256, 1000]
BOUND = [INT64_MAX, INT64_MAX - 1, INT64_MIN, INT64_MIN + 1, 2 ** 31 - 1, 2 ** 31, -(2 ** 31), -(2 ** 31) - 1, 2 ** 32, 2 ** 32 + 1,
         -(2 ** 32) - 1, 2 ** 62, -(2 ** 62), 4611686018427387903, 3037000500, 3037000499]
STR_ALPHA = "abcdefgXYZ0123456789 _-+*/=<>()[]{}.,:;!?@#$%^&|~'"


def lit_int(g):
    k = g.i(0, 9)
    if k <= 5:
        return ("int", g.pick(SMALL))
    if k <= 7:
        return ("int", g.i(-1000, 1000))
    if g.has("int_boundaries"):
        g.use("int_boundary_literal")
        return ("int", g.pick(BOUND))
    return ("int", g.i(-100000, 100000))


def lit_str(g):
    k = g.i(0, 9)
    if k == 0:
        return ("str", b"")
    if k == 1 and g.has("long_strings"):
        g.use("long_string")
        return ("str", (g.pick(["ab", "xyz_", "0123456789"]) * g.i(20, 300)).encode())
    n = g.i(1, 8)
    s = "".join(g.pick(STR_ALPHA) for _ in range(n))
    if g.chance(1, 12):
        s += g.pick(["é", "中", "ü"])
        g.use("utf8_literal")
    if g.chance(1, 10) and g.gate("string_escapes"):
        s += g.pick(["\\n", "\\t", "\\\\", "\\\""])
        g.use("string_escape")
    return ("str", s.encode("utf-8"))


def lit_float(g):
    return ("float", g.pick([0.0, 1.0, 0.5, 2.5, 3.25, 10.0, 100.125, 1.5, 7.75, 0.125, 4.0, 1234567.891, 0.123456789, 3.141592653589793, 1000000.0]))


# ----------------------------------------------------------------------------- expressions
def gen_expr(g, sc, t, d):
    """Expression of type t at remaining depth d."""
    if isinstance(t, str):
        if t == "int":
            return gen_int(g, sc, d)
        if t == "bool":
            return gen_bool(g, sc, d)
        if t == "string":
            return gen_string(g, sc, d)
        if t == "float":
            return gen_float(g, sc, d)
    k = t[0]
    vs = sc.of_type(t)
    if vs and g.chance(1, 2) and not (k == "array" and not g.has("array_alias")):
        return ("var", g.pick(vs))
    if k == "array" and vs and g.has("array_slice") and g.chance(1, 3):
        # a copy of a range of an existing array: start / length inside the known minimum length, or the whole array
        src = g.pick(vs)
        m = sc.lookup(src)[2].get("minlen", 0)
        g.use("array_slice")
        if m > 0 and g.chance(3, 4):
            st_ = g.i(0, m)
            return ("bi", "array_slice", [("var", src), ("int", st_), ("int", g.i(0, m - st_))])
        return ("bi", "array_slice", [("var", src), ("int", 0), ("bi", "array_length", [("var", src)])])
    if k == "array":
        # fresh arrays only (no aliasing unless the feature is on)
        n = g.i(0, 5)
        g.use("array_literal")
        return ("arr", t[1], gen_args(g, sc, [t[1]] * n, min(d, 1)))
    if k == "struct":
        fields = dict(g.structs)[t[1]]
        g.use("struct_literal")
        vals = gen_args(g, sc, [ft for _f, ft in fields], max(0, d - 1))
        return ("mk", t[1], [(f, v) for (f, _ft), v in zip(fields, vals)])
    if k == "enum":
        vs2 = dict(g.enums)[t[1]]
        g.use("enum_value")
        return ("enum", t[1], g.pick(vs2)[0])
    if k == "union":
        variants = dict(g.unions)[t[1]]
        v, fs = g.pick(variants)
        g.use("union_construct")
        vals = gen_args(g, sc, [ft for _f, ft in fs], max(0, d - 1))
        return ("umk", t[1], v, [(f, x) for (f, _ft), x in zip(fs, vals)])
    if k == "tuple":
        g.use("tuple_literal")
        return ("tup", gen_args(g, sc, list(t[1]), max(0, d - 1)))
    if k == "fn":
        cands = [f["name"] for f in g.funcs if fn_type(f) == t and not f.get("recursive")]
        if cands:
            g.use("fnref")
            return ("fnref", g.pick(cands))
        raise NoCandidate()
    raise ValueError(t)


class NoCandidate(Exception):
    pass


def fn_type(f):
    return ("fn", tuple(t for _, t in f["params"]), f["ret"])


def projections(g, sc, t):
    """Expressions of type t obtained by field / tuple projection from variables in scope."""
    out = []
    for n, (vt, _m, _x) in sc.all_vars().items():
        if isinstance(vt, tuple):
            if vt[0] == "struct":
                for f, ft in dict(g.structs)[vt[1]]:
                    if ft == t:
                        out.append(("field", ("var", n), f))
                    elif isinstance(ft, tuple) and ft[0] == "struct":
                        for f2, ft2 in dict(g.structs)[ft[1]]:
                            if ft2 == t:
                                out.append(("field", ("field", ("var", n), f), f2))
            elif vt[0] == "tuple":
                for i, et in enumerate(vt[1]):
                    if et == t:
                        out.append(("tidx", ("var", n), i))
            elif vt[0] == "variant":
                for vn, fs in dict(g.unions)[vt[1]]:
                    if vn == vt[2]:
                        for f, ft in fs:
                            if ft == t:
                                out.append(("field", ("var", n), f))
    return out


def temp_projection(g, sc, t, d):
    """Field of a struct that exists only as the result of a call: (f args).field - the struct is a temporary whose
    last reference is the operand of the field read."""
    if not g.has("field_of_call") or not g.has("functions") or g.pure > 0:
        return None
    cands = []
    for (sn, fields) in g.structs:
        fs = [f for f, ft in fields if ft == t]
        if fs and callables(g, sc, ("struct", sn)):
            cands.append((sn, fs))
    if not cands:
        return None
    sn, fs = g.pick(cands)
    c = gen_call(g, sc, ("struct", sn), d)
    if not c or c[0] != "call":
        return None
    g.use("field_of_call")
    return ("field", c, g.pick(fs))


def callables(g, sc, t):
    """(kind, name/expr, param types) of things callable that return t."""
    out = []
    for f in g.funcs:
        if f["ret"] == t and f.get("callable", True):
            out.append(("fn", f))
    if g.has("fnvalues"):
        for n, (vt, _m, _x) in sc.all_vars().items():
            if isinstance(vt, tuple) and vt[0] == "fn" and vt[2] == t:
                out.append(("val", n, vt))
    return out


def has_call(e):
    if isinstance(e, tuple):
        if e and e[0] in ("call", "callv"):
            return True
        return any(has_call(x) for x in e)
    if isinstance(e, list):
        return any(has_call(x) for x in e)
    return False


def gen_args(g, sc, types, d):
    """Argument / element lists: once one argument contains a call, later ones are call-free unless the
    effectful_args feature is on (native code evaluates C call arguments right to left: known finding)."""
    out = []
    seen = False
    for t in types:
        if seen and not g.gate("effectful_args"):
            g.pure += 1
            try:
                a = gen_expr(g, sc, t, d)
            finally:
                g.pure -= 1
        else:
            a = gen_expr(g, sc, t, d)
        if has_call(a):
            seen = True
            if len(out) > 0 or True:
                pass
        out.append(a)
    if sum(1 for a in out if has_call(a)) >= 2:
        g.use("effectful_args")
    return out


def gen_call(g, sc, t, d):
    if g.pure > 0:
        return None
    cs = callables(g, sc, t)
    cur = getattr(sc_root(sc), "cur_fn", None)
    cs = [c for c in cs if not (c[0] == "fn" and cur is not None and c[1]["name"] == cur)]
    if not cs:
        return None
    c = g.pick(cs)
    if c[0] == "fn":
        f = c[1]
        gen = gen_args(g, sc, [pt for (pn, pt) in f["params"] if pn != "fuel"], max(0, d - 1))
        args = []
        for (pn, pt) in f["params"]:
            if pn == "fuel":
                args.append(("int", g.i(0, 4)))
            else:
                args.append(gen.pop(0))
        g.use("call")
        if f.get("recursive"):
            g.use("call_recursive_fn")
        return ("call", f["name"], args)
    _, n, vt = c
    g.use("call_fn_value")
    return ("callv", ("var", n), gen_args(g, sc, list(vt[1]), max(0, d - 1)))


def sc_root(sc):
    while sc.parent:
        sc = sc.parent
    return sc


def safe_divisor(g, sc, d):
    if g.chance(2, 3) or d <= 0:
        return ("int", g.pick([2, 3, 5, 7, 10, 16, 255, 1000, -3, -7, 2 ** 31, 2 ** 32 + 1]
                              if g.has("neg_divmod") else [2, 3, 5, 7, 10, 16, 255, 1000, 2 ** 31]))
    inner = gen_int(g, sc, d - 1)
    return ("bin", "+", ("int", 1), ("bi", "abs", [("bin", "%", inner, ("int", g.pick([7, 13, 100])), g.style())]), g.style())


def nonempty_arrays(sc, elem=None):
    out = []
    for n, (vt, _m, meta) in sc.all_vars().items():
        if isinstance(vt, tuple) and vt[0] == "array" and (elem is None or vt[1] == elem):
            if meta and meta.get("minlen", 0) > 0:
                out.append(n)
    return out


def safe_index(g, sc, arr, d):
    inner = gen_int(g, sc, max(0, d - 1))
    g.use("array_index")
    return ("bin", "%", ("bi", "abs", [("bin", "%", inner, ("int", 9973), "p")]), ("bi", "array_length", [("var", arr)]), "p")


def gen_int(g, sc, d):
    if d <= 0:
        vs = sc.of_type("int")
        if vs and g.chance(2, 3):
            return ("var", g.pick(vs))
        return lit_int(g)
    k = g.i(0, 23)
    if k >= 20 and g.has("ext_builtins"):
        g.use("ext_builtin_int")
        if k == 20 and g.has("strings"):
            return ("bi", "string_to_int", [("str", g.pick([b"123", b"-45", b"12ab", b"", b"007", b"0", b"99999"]))])
        if k == 21:
            return ("bi", g.pick(["char_to_lower", "char_to_upper", "digit_value"]), [("int", g.pick([48, 57, 65, 90, 97, 122, 32, 95, 0]))])
        if k == 22 and g.has("floats"):
            inner = gen_float(g, sc, min(d - 1, 1))
            if g.b():
                inner = ("bi", g.pick(["floor", "ceil", "round"]), [inner])
            return ("bi", "cast_int", [inner])
        return ("bi", "cast_int", [gen_bool_pure(g, sc, min(d - 1, 1))])
    if k <= 5:
        op = g.pick(["+", "-", "*"])
        a, b = gen_args(g, sc, ["int", "int"], d - 1)
        g.use("arith")
        return ("bin", op, a, b, g.style())
    if k == 6 and g.has("divmod"):
        op = g.pick(["/", "%"])
        a = gen_int(g, sc, d - 1)
        if not g.has("neg_divmod"):
            a = ("bi", "abs", [("bin", "%", a, ("int", 1000003), "p")])
        g.use("divmod")
        if has_call(a) and not g.gate("effectful_args"):
            g.pure += 1
            try:
                dv = safe_divisor(g, sc, d - 1)
            finally:
                g.pure -= 1
        else:
            dv = safe_divisor(g, sc, d - 1)
        return ("bin", op, a, dv, g.style())
    if k == 7 and g.has("unary"):
        g.use("neg")
        return ("un", "-", gen_int(g, sc, d - 1), g.style())
    if k in (8, 9) and g.has("functions"):
        c = gen_call(g, sc, "int", d)
        if c:
            return c
    if k == 10 and g.has("strings"):
        g.use("str_length")
        return ("bi", "str_length", [gen_string(g, sc, d - 1)])
    if k == 11 and g.has("arrays"):
        arrs = [n for n, v in sc.all_vars().items() if isinstance(v[0], tuple) and v[0][0] == "array"]
        if arrs:
            g.use("array_length")
            return ("bi", "array_length", [("var", g.pick(arrs))])
    if k == 12 and g.has("arrays"):
        arrs = nonempty_arrays(sc, "int")
        if arrs:
            a = g.pick(arrs)
            g.use("at")
            return ("bi", "at", [("var", a), safe_index(g, sc, a, d)])
    if k == 13:
        tp = temp_projection(g, sc, "int", d) if g.chance(1, 3) else None
        if tp:
            return tp
        ps = projections(g, sc, "int")
        if ps:
            g.use("projection")
            return g.pick(ps)
    if k == 14:
        g.use("abs")
        return ("bi", "abs", [gen_int(g, sc, d - 1)])
    if k == 15 and g.gate("min_max"):
        g.use("min_max")
        return ("bi", g.pick(["min", "max"]), gen_args(g, sc, ["int", "int"], d - 1))
    if k == 16 and g.has("cond"):
        g.use("cond")
        n = g.i(1, 3)
        return ("cond", [(gen_bool(g, sc, d - 1), gen_int(g, sc, d - 1)) for _ in range(n)], gen_int(g, sc, d - 1))
    if k == 17 and g.has("char_at") and g.has("strings"):
        s = lit_str(g)
        if len(s[1]) > 0 and b"\\" not in s[1]:
            g.use("char_at")
            return ("bi", "char_at", [s, ("int", g.i(0, len(s[1]) - 1))])
    vs = sc.of_type("int")
    if vs and g.chance(3, 4):
        return ("var", g.pick(vs))
    return lit_int(g)


def clamp_small(e):
    return e


def gen_bool(g, sc, d):
    if d <= 0:
        vs = sc.of_type("bool")
        if vs and g.b():
            return ("var", g.pick(vs))
        return ("bool", g.b())
    k = g.i(0, 15)
    if k >= 14 and g.has("ext_builtins"):
        g.use("ext_builtin_bool")
        if k == 14:
            return ("bi", g.pick(["is_digit", "is_alpha", "is_upper", "is_lower", "is_whitespace"]), [("int", g.pick([48, 57, 65, 90, 97, 122, 32, 95, 10, 9, 64, 91]))])
        return ("bi", "cast_bool", [gen_int(g, sc, min(d - 1, 1))])
    if k <= 4:
        g.use("cmp_int")
        a, b = gen_args(g, sc, ["int", "int"], d - 1)
        if strip_style(a) == strip_style(b):
            if g.gate("self_compare"):
                g.use("self_compare")
            else:
                b = ("bin", "+", b, ("int", g.pick([0, 1])), "p")
        return ("bin", g.pick(CMP), a, b, g.style())
    if k <= 6:
        op = g.pick(LOGIC)
        a = gen_bool(g, sc, d - 1)
        if g.gate("effectful_logic"):
            bb = gen_bool(g, sc, d - 1)
        else:
            bb = gen_bool_pure(g, sc, d - 1)
        g.use("logic")
        return ("bin", op, a, bb, g.style())
    if k == 7 and g.has("unary"):
        g.use("not")
        return ("un", "not", gen_bool(g, sc, d - 1), g.style())
    if k == 8 and g.has("strings"):
        g.use("cmp_string")
        a, b = gen_args(g, sc, ["string", "string"], d - 1)
        return ("bin", g.pick(["==", "!="]), a, b, g.style())
    if k == 9 and g.has("strings") and g.has("str_builtins"):
        g.use("str_pred")
        return ("bi", g.pick(["str_contains", "str_equals"]), gen_args(g, sc, ["string", "string"], d - 1))
    if k == 10 and g.has("floats"):
        g.use("cmp_float")
        a, b = gen_args(g, sc, ["float", "float"], d - 1)
        return ("bin", g.pick(["<", "<=", ">", ">=", "==", "!="]), a, b, g.style())
    if k == 11 and g.has("functions"):
        c = gen_call(g, sc, "bool", d)
        if c:
            return c
    if k == 12 and g.has("enums") and g.enums:
        en = g.pick(g.enums)
        t = ("enum", en[0])
        g.use("cmp_enum")
        ops = ["==", "!="] + (["<", "<=", ">", ">="] if g.has("enum_ordering") else [])
        return ("bin", g.pick(ops), gen_expr(g, sc, t, 0), gen_expr(g, sc, t, 0), g.style())
    if k == 13:
        tp = temp_projection(g, sc, "bool", d) if g.chance(1, 3) else None
        if tp:
            return tp
        ps = projections(g, sc, "bool")
        if ps:
            return g.pick(ps)
    vs = sc.of_type("bool")
    if vs and g.b():
        return ("var", g.pick(vs))
    return ("bool", g.b())


def strip_style(e):
    """Structural identity of expressions regardless of prefix/infix spelling."""
    if isinstance(e, tuple):
        if e and e[0] == "bin":
            return ("bin", e[1], strip_style(e[2]), strip_style(e[3]))
        if e and e[0] == "un":
            return ("un", e[1], strip_style(e[2]))
        return tuple(strip_style(x) for x in e)
    if isinstance(e, list):
        return tuple(strip_style(x) for x in e)
    return e


def gen_bool_pure(g, sc, d):
    """A bool expression with no calls (no side effects, cannot fail)."""
    saved = g.F
    g.F = g.F - {"functions", "fnvalues"}
    try:
        return gen_bool(g, sc, d)
    finally:
        g.F = saved


def gen_string(g, sc, d):
    if d <= 0:
        vs = sc.of_type("string")
        if vs and g.b():
            return ("var", g.pick(vs))
        return lit_str(g)
    k = g.i(0, 11)
    if k >= 10 and g.has("ext_builtins"):
        g.use("ext_builtin_string")
        if k == 10:
            return ("bi", "string_from_char", [("int", g.pick([65, 90, 97, 122, 48, 57, 33, 126]))])
        return ("bi", "cast_string", [gen_int(g, sc, min(d - 1, 1)) if g.b() else gen_bool_pure(g, sc, min(d - 1, 1))])
    if k <= 2:
        g.use("str_concat_plus")
        a, b = gen_args(g, sc, ["string", "string"], d - 1)
        return ("bin", "+", a, b, g.style())
    if k == 3 and g.has("str_builtins"):
        g.use("str_concat")
        return ("bi", "str_concat", gen_args(g, sc, ["string", "string"], d - 1))
    if k == 4:
        g.use("int_to_string")
        return ("bi", "int_to_string", [gen_int(g, sc, d - 1)])
    if k == 5 and g.has("functions"):
        c = gen_call(g, sc, "string", d)
        if c:
            return c
    if k == 6 and g.has("arrays"):
        arrs = nonempty_arrays(sc, "string")
        if arrs:
            a = g.pick(arrs)
            g.use("at_string")
            return ("bi", "at", [("var", a), safe_index(g, sc, a, d)])
    if k == 7:
        tp = temp_projection(g, sc, "string", d) if g.chance(1, 3) else None
        if tp:
            return tp
        ps = projections(g, sc, "string")
        if ps:
            g.use("projection")
            return g.pick(ps)
    if k == 8 and g.has("str_substring"):
        s = lit_str(g)
        n = len(s[1])
        if s[1].isascii() and b"\\" not in s[1]:
            a = g.i(0, n)
            ln = g.i(0, n - a)
            g.use("str_substring")
            return ("bi", "str_substring", [s, ("int", a), ("int", ln)])
    vs = sc.of_type("string")
    if vs and g.b():
        return ("var", g.pick(vs))
    return lit_str(g)


def gen_float(g, sc, d):
    if d <= 0 or not g.has("float_arith"):
        vs = sc.of_type("float")
        if vs and g.b():
            return ("var", g.pick(vs))
        return lit_float(g)
    k = g.i(0, 8)
    if k >= 7 and g.has("ext_builtins"):
        g.use("ext_builtin_float")
        if k == 7:
            return ("bi", "cast_float", [gen_int(g, sc, min(d - 1, 1))])
        f = g.pick(["sqrt", "floor", "ceil", "round", "abs"])
        if f == "sqrt":
            return ("bi", "sqrt", [("float", g.pick([0.0, 1.0, 4.0, 6.25, 100.0, 2.25]))])
        return ("bi", f, [gen_float(g, sc, d - 1)])
    if k == 6:
        g.use("float_div")
        a = gen_float(g, sc, d - 1)
        return ("bin", "/", a, ("float", g.pick([4.0, 0.5, 2.5, 10.0, 3.0])), g.style())
    if k <= 2:
        g.use("float_arith")
        a, b = gen_args(g, sc, ["float", "float"], d - 1)
        return ("bin", g.pick(["+", "-", "*"]), a, b, g.style())
    if k == 3 and g.has("functions"):
        c = gen_call(g, sc, "float", d)
        if c:
            return c
    vs = sc.of_type("float")
    if vs and g.b():
        return ("var", g.pick(vs))
    return lit_float(g)


# ----------------------------------------------------------------------------- types
def scalar_types(g):
    ts = ["int", "int", "bool"]
    if g.has("strings"):
        ts += ["string", "string"]
    if g.has("floats"):
        ts.append("float")
    return ts


def value_types(g, allow_fn=True):
    ts = scalar_types(g)
    if g.has("arrays"):
        ts.append(t_array("int"))
        if g.has("array_string") and g.has("strings"):
            ts.append(t_array("string"))
        if g.has("array_bool"):
            ts.append(t_array("bool"))
        if g.has("array_float") and g.has("floats"):
            ts.append(t_array("float"))
        if g.has("array_struct") and g.structs:
            ts.append(t_array(("struct", g.pick(g.structs)[0])))
    for s in g.structs:
        ts.append(("struct", s[0]))
    for e in g.enums:
        ts.append(("enum", e[0]))
    for u in g.unions:
        ts.append(("union", u[0]))
    if g.has("tuples"):
        ts.append(("tuple", tuple(g.pick(scalar_types(g)) for _ in range(g.i(2, 3)))))
    return ts


def gen_typedefs(g):
    if g.has("structs"):
        for _ in range(g.i(0, 2)):
            name = "T_S%d" % (len(g.structs) + 1)
            fields = []
            nf = g.i(1, 4)
            # field names are shared between structs (and with union variants) and sit at different positions in each:
            # an engine that resolves a field by name across types instead of by the static type reads the wrong slot
            rot = g.i(0, 3) if g.has("shared_field_names") else 0
            for j in range(nf):
                ft = g.pick(scalar_types(g))
                if g.has("nested_struct") and g.structs and g.chance(1, 4):
                    ft = ("struct", g.pick(g.structs)[0])
                if g.has("struct_array_field") and g.has("arrays") and g.chance(1, 6):
                    ft = t_array("int")
                fields.append(("f%d" % ((j + rot) % 4), ft))
            g.structs.append((name, fields))
    if g.has("enums"):
        for _ in range(g.i(0, 2)):
            name = "T_E%d" % (len(g.enums) + 1)
            n = g.i(2, 4)
            vals = sorted(set(g.i(0, 20) for _ in range(n)))
            if g.has("enum_wide_values") and g.chance(1, 3):
                # explicit values outside one byte / 16 bits and negative ones (all inside the 32-bit range every engine shares)
                vals = sorted(set(g.pick([-5, -1, 0, 3, 255, 256, 65535, 65536, 70000, 2147483647]) for _ in range(n)))
                g.use("enum_wide_values")
            g.enums.append((name, [("K%d" % j, v) for j, v in enumerate(vals)]))
    if g.has("unions"):
        for _ in range(g.i(0, 2)):
            name = "T_U%d" % (len(g.unions) + 1)
            variants = []
            for j in range(g.i(2, 3)):
                pre = "f" if (g.has("shared_field_names") and g.b()) else "u"
                urot = g.i(0, 2) if pre == "f" else 0
                fs = [("%s%d" % (pre, (x + urot) % 4), g.pick(scalar_types(g))) for x in range(g.i(1, 2))]
                variants.append(("V%d%s" % (j, name[3:]), fs))
            g.unions.append((name, variants))


# ----------------------------------------------------------------------------- statements
class Ctx:
    def __init__(self, ret, loop_depth=0, in_for=False, depth=0, fuel=False):
        self.ret = ret
        self.loop_depth = loop_depth
        self.in_for = in_for        # nearest enclosing loop is a for
        self.depth = depth
        self.fuel = fuel


def trace(g, sc, name, t):
    if printable(t) and g.chance(2, 3):
        return [("println", ("var", name))]
    if t == "float":
        return []
    return []


def maybe_bare(g, e):
    """Mark a statement-level infix expression so that the printer omits its outer parentheses."""
    if e[0] == "bin" and e[4] == "i" and len(e) == 5 and g.b():
        g.use("bare_infix_chain")
        return e + ("bare",)
    if e[0] == "un" and e[3] == "i" and len(e) == 4 and e[2][0] == "var" and g.b():
        g.use("bare_unary")
        return e + ("bare",)
    return e


def loop_exit(g, sc, cx_in_for, body, first):
    """Insert a conditional break / continue somewhere in a loop body (after position `first`)."""
    if not g.has("break") or not g.chance(1, 2):
        return
    which = "break"
    if g.has("continue") and g.b():
        if cx_in_for and not g.gate("continue_in_for"):
            which = "break"
        else:
            which = "continue"
    pos = g.i(first, len(body))
    body.insert(pos, ("if", maybe_bare(g, gen_bool_pure(g, sc, 1)), [(which,)], None))
    g.use(which + ("_in_for" if cx_in_for else "_in_while"))


def gen_let(g, sc, cx, out):
    ts = value_types(g)
    t = g.pick(ts)
    try:
        e = gen_expr(g, sc, t, g.i(0, 3 if g.has("deep_expr") else 2))
    except NoCandidate:
        return
    mut = g.chance(1, 3) and not (isinstance(t, tuple) and t[0] == "fn")
    name = g.fresh()
    if g.gate("shadowing") and cx.depth > 0 and g.chance(1, 6):
        outer = [n for n in sc.parent.all_vars()] if sc.parent else []
        skip = ("w_", "i_", "fuel", "p_", "m_") + (() if g.has("global_shadow") else ("g_",))
        outer = [n for n in outer if n not in sc.vars and not n.startswith(skip)]
        same = [n for n in outer if sc.lookup(n)[0] == t]
        if outer and same != outer and not g.gate("shadow_type_change"):
            outer = same
        if outer:
            name = g.pick(outer)
            g.use("shadowing")
            if sc.lookup(name)[0] != t:
                g.use("shadow_type_change")
    meta = {}
    if isinstance(t, tuple) and t[0] == "array":
        mut = g.has("array_mut") and g.chance(2, 3)
        if e[0] == "arr":
            meta["minlen"] = len(e[2])
    out.append(("let", name, t, maybe_bare(g, e), mut))
    sc.vars[name] = (t, mut, meta)
    g.use("let")
    out += trace(g, sc, name, t)


def gen_fn_let(g, sc, cx, out):
    cands = [f for f in g.funcs if not f.get("recursive") and f.get("callable", True) and 1 <= len(f["params"]) <= 3
             and all(isinstance(pt, str) for _, pt in f["params"]) and isinstance(f["ret"], str)]
    if not cands:
        return
    f = g.pick(cands)
    name = g.fresh()
    t = fn_type(f)
    out.append(("let", name, t, ("fnref", f["name"]), False))
    sc.vars[name] = (t, False, {})
    g.use("fn_value_let")


def gen_set(g, sc, cx, out):
    muts = [(n, v) for n, v in sc.all_vars().items() if v[1] and not (isinstance(v[0], tuple) and v[0][0] == "array")
            and not n.startswith("w_")]
    if not muts:
        return
    n, v = g.pick(muts)
    out.append(("set", n, maybe_bare(g, gen_expr(g, sc, v[0], g.i(0, 2)))))
    g.use("set")
    out += trace(g, sc, n, v[0])


def gen_array_mut(g, sc, cx, out):
    arrs = [(n, v) for n, v in sc.all_vars().items() if isinstance(v[0], tuple) and v[0][0] == "array" and v[1]]
    if not arrs:
        return
    n, v = g.pick(arrs)
    et = v[0][1]
    meta = v[2]
    k = g.i(0, 3)
    if k <= 1:
        out.append(("set", n, ("bi", "array_push", [("var", n), gen_expr(g, sc, et, 1)])))
        g.use("array_push")
        if cx.loop_depth == 0 and n in sc.vars:
            meta["minlen"] = meta.get("minlen", 0) + 1
    elif k == 2 and meta.get("minlen", 0) > 0:
        out.append(("expr", ("bi", "array_set", [("var", n), safe_index(g, sc, n, 1), gen_expr(g, sc, et, 1)])))
        g.use("array_set")
    elif k == 3 and g.has("array_pop") and meta.get("minlen", 0) > 0 and cx.loop_depth == 0 and n in sc.vars and et == "int":
        x = g.fresh()
        out.append(("let", x, et, ("bi", "array_pop", [("var", n)]), False))
        sc.vars[x] = (et, False, {})
        meta["minlen"] -= 1
        g.use("array_pop")
        out += trace(g, sc, x, et)
    if printable(et) and meta.get("minlen", 0) > 0 and g.b():
        out.append(("println", ("bi", "at", [("var", n), ("bin", "-", ("bi", "array_length", [("var", n)]), ("int", 1), "p")])))
    out.append(("println", ("bi", "array_length", [("var", n)])))


def gen_slice_idiom(g, sc, cx, out):
    """A slice that starts inside an array of (preferably heap) values and outlives its source: the source is replaced
    or grows afterwards and the slice is read again."""
    ets = ["int"]
    if g.has("array_string") and g.has("strings"):
        ets += ["string", "string", "string"]
    if g.has("array_bool"):
        ets.append("bool")
    if g.has("array_float") and g.has("floats"):
        ets.append("float")
    et = g.pick(ets)
    n = g.i(2, 5)
    a = g.fresh()
    out.append(("let", a, t_array(et), ("arr", et, gen_args(g, sc, [et] * n, 1)), True))
    sc.vars[a] = (t_array(et), True, {"minlen": n})
    st_ = g.i(1, n - 1)
    ln = g.i(1, n - st_)
    b = g.fresh()
    out.append(("let", b, t_array(et), ("bi", "array_slice", [("var", a), ("int", st_), ("int", ln)]), False))
    sc.vars[b] = (t_array(et), False, {"minlen": ln})
    show = lambda: [("println", ("bi", "at", [("var", b), ("int", g.i(0, ln - 1))]))] if printable(et) else []
    out += show()
    how = g.i(0, 2)
    if how == 0:
        out.append(("set", a, ("arr", et, gen_args(g, sc, [et] * g.i(0, 2), 1))))      # the source array dies
        sc.vars[a][2]["minlen"] = 0
    elif how == 1:
        out.append(("set", a, ("bi", "array_push", [("var", a), gen_expr(g, sc, et, 1)])))
    else:
        out.append(("expr", ("bi", "array_set", [("var", a), ("int", st_), gen_expr(g, sc, et, 1)])))
    out += show()
    out.append(("println", ("bi", "array_length", [("var", b)])))
    out.append(("println", ("bi", "array_length", [("var", a)])))
    g.use("slice_idiom_" + et)


def child_scope(sc):
    c = Scope(sc)
    return c


def gen_if(g, sc, cx, out, budget):
    c = maybe_bare(g, gen_bool(g, sc, g.i(1, 2)))
    then = gen_block(g, child_scope(sc), Ctx(cx.ret, cx.loop_depth, cx.in_for, cx.depth + 1, cx.fuel), budget // 2)
    els = None
    if g.b():
        if g.has("else_if") and g.chance(1, 3):
            c2 = gen_bool(g, sc, 1)
            b2 = gen_block(g, child_scope(sc), Ctx(cx.ret, cx.loop_depth, cx.in_for, cx.depth + 1, cx.fuel), budget // 3)
            b3 = gen_block(g, child_scope(sc), Ctx(cx.ret, cx.loop_depth, cx.in_for, cx.depth + 1, cx.fuel), budget // 3)
            els = [("if", c2, b2, b3, "elif")]
            g.use("else_if")
        else:
            els = gen_block(g, child_scope(sc), Ctx(cx.ret, cx.loop_depth, cx.in_for, cx.depth + 1, cx.fuel), budget // 2)
    out.append(("if", c, then, els))
    g.use("if")


def gen_while(g, sc, cx, out, budget):
    w = g.fresh("w")
    out.append(("let", w, "int", ("int", 0), True))
    sc.vars[w] = ("int", True, {})
    bound = g.i(0, 4)
    inner = child_scope(sc)
    body = [("set", w, ("bin", "+", ("var", w), ("int", 1), g.style()))]
    body += gen_block(g, inner, Ctx(cx.ret, cx.loop_depth + 1, False, cx.depth + 1, cx.fuel), budget // 2)
    cond = ("bin", "<", ("var", w), ("int", bound), g.style())
    if g.chance(1, 4):
        cond = ("bin", "and", cond, gen_bool_pure(g, sc, 1), g.style())
    loop_exit(g, sc, False, body, 1)
    out.append(("while", maybe_bare(g, cond), body))
    g.use("while")


def gen_for(g, sc, cx, out, budget):
    v = g.fresh("i")
    lo = g.i(-2, 3)
    hi = lo + g.i(0, 4)
    inner = child_scope(sc)
    inner.vars[v] = ("int", False, {})
    body = gen_block(g, inner, Ctx(cx.ret, cx.loop_depth + 1, True, cx.depth + 1, cx.fuel), budget // 2)
    hdr = child_scope(sc)
    hdr.vars[v] = ("int", False, {})
    loop_exit(g, hdr, True, body, 0)
    out.append(("for", v, ("int", lo), ("int", hi), body))
    g.use("for")


def gen_loop_nest(g, sc, cx, out):
    """An inner loop with an exit that is (usually) taken at a known iteration, nested in an outer loop or block whose
    remaining statements show whether the exit ended exactly the inner loop: accumulator updates and prints after the
    inner loop, after the outer construct, and a second pass of the outer loop."""
    acc = g.fresh("v")
    out.append(("let", acc, "int", ("int", 0), True))
    sc.vars[acc] = ("int", True, {})
    nb = g.i(1, 4)
    at = g.i(0, nb + 1)                    # == nb + 1 or nb: never reached for some draws
    inner_kind = g.pick(["for", "for", "while"])
    exits = ["break"]
    if g.has("continue") and (inner_kind == "while" or g.gate("continue_in_for")):
        exits.append("continue")
    if g.has("early_return") and cx.ret == "int" and cx.depth > 0:
        exits.append("return")
    ex = g.pick(exits)
    exit_stmt = ("return", ("bin", "+", ("var", acc), ("int", 7000), g.style())) if ex == "return" else (ex,)
    bump = lambda n: ("set", acc, ("bin", "+", ("var", acc), ("int", n), g.style()))
    if inner_kind == "for":
        iv = g.fresh("i")
        ibody = [("if", maybe_bare(g, ("bin", "==", ("var", iv), ("int", at), g.style())), [exit_stmt], None), bump(1)]
        if g.b():
            ibody.append(("println", ("var", iv)))
        inner = [("for", iv, ("int", 0), ("int", nb), ibody)]
    else:
        wv = g.fresh("w")
        ibody = [("set", wv, ("bin", "+", ("var", wv), ("int", 1), g.style())),
                 ("if", maybe_bare(g, ("bin", "==", ("var", wv), ("int", at), g.style())), [exit_stmt], None), bump(1)]
        inner = [("let", wv, "int", ("int", 0), True), ("while", ("bin", "<", ("var", wv), ("int", nb), g.style()), ibody)]
    after = [bump(100), ("println", ("var", acc))]
    okind = g.pick(["while", "for", "if", "else"])
    na = g.i(1, 3)
    if okind == "while":
        ov = g.fresh("w")
        out.append(("let", ov, "int", ("int", 0), True))
        sc.vars[ov] = ("int", True, {})
        out.append(("while", ("bin", "<", ("var", ov), ("int", na), g.style()),
                    [("set", ov, ("bin", "+", ("var", ov), ("int", 1), g.style()))] + inner + after))
    elif okind == "for":
        out.append(("for", g.fresh("i"), ("int", 0), ("int", na), inner + after))
    elif okind == "if":
        out.append(("if", ("bin", "==", ("int", 1), ("int", 1), g.style()), inner + after, None))
    else:
        out.append(("if", ("bin", "==", ("int", 1), ("int", 2), g.style()), [("println", ("int", -1))], inner + after))
    out.append(("println", ("var", acc)))
    g.use("loop_nest_%s_in_%s_%s" % (inner_kind, okind, ex))


def gen_string_lifetimes(g, sc, cx, out):
    """Several results of one string-producing operation alive at the same time (a static or shared buffer in a runtime
    shows as equal strings), and a string alias that must keep its value when the original is reassigned and other
    strings of the same size are created."""
    if g.b():
        f = g.pick(["int_to_string", "cast_string", "string_from_char", "str_substring", "str_concat"] if g.has("ext_builtins")
                   else ["int_to_string", "str_substring", "str_concat"])
        names = []
        for j in range(g.i(2, 3)):
            n = g.fresh()
            if f in ("int_to_string", "cast_string"):
                e = ("bi", f, [("int", 111 * (j + 1) + g.i(0, 5))])
            elif f == "string_from_char":
                e = ("bi", f, [("int", 65 + j)])
            elif f == "str_substring":
                e = ("bi", f, [("str", b"abcdefghij"), ("int", j), ("int", 3)])
            else:
                e = ("bi", f, [("str", b"k" * (j + 1)), ("str", b"v")])
            out.append(("let", n, "string", e, False))
            sc.vars[n] = ("string", False, {})
            names.append(n)
        for n in names:
            out.append(("println", ("var", n)))
        out.append(("println", ("bin", "+", ("var", names[0]), ("var", names[-1]), g.style())))
        out.append(("println", ("bin", "==", ("var", names[0]), ("var", names[-1]), g.style())))
        if g.has("arrays") and g.has("array_string"):
            a = g.fresh()
            out.append(("let", a, t_array("string"), ("arr", "string", [("bi", "int_to_string", [("int", 10 * (j + 1))]) for j in range(3)]), False))
            sc.vars[a] = (t_array("string"), False, {"minlen": 3})
            for j in (0, 2):
                out.append(("println", ("bi", "at", [("var", a), ("int", j)])))
        g.use("strings_alive_together_" + f)
    else:
        cur, prev, pad = g.fresh(), g.fresh(), g.fresh()
        k = g.i(10, 99)
        out.append(("let", cur, "string", ("bin", "+", ("str", b"ab"), ("bi", "int_to_string", [("int", k)]), "p"), True))
        out.append(("let", prev, "string", ("var", cur), False))
        out.append(("set", cur, ("bin", "+", ("str", b"cd"), ("bi", "int_to_string", [("int", k + 1)]), "p")))
        out.append(("let", pad, "string", ("bin", "+", ("str", b"ef"), ("bi", "int_to_string", [("int", k + 2)]), "p"), False))
        for n in (cur, prev, pad):
            sc.vars[n] = ("string", n == cur, {})
        out.append(("println", ("var", prev)))
        out.append(("println", ("var", cur)))
        out.append(("println", ("var", pad)))
        g.use("string_alias_then_reassign")


def gen_hashmap_idiom(g, sc, cx, out):
    """A HashMap local used only here: inserts, an overwrite of an existing key with a freshly built value, a removal,
    then reads. The overwritten and the removed value are heap objects when the value type is string."""
    kt, vt = g.pick([("int", "string"), ("string", "int"), ("string", "string"), ("int", "int")])
    hm = g.fresh("h")
    out.append(("let", hm, ("hashmap", kt, vt), ("bi", "map_new", []), False))
    keys = [("int", 1), ("int", 2), ("int", 7)] if kt == "int" else [("str", b"a"), ("str", b"bb"), ("str", b"k7")]
    def val(j):
        if vt == "int":
            return ("int", 10 * j + g.i(0, 5))
        return ("bin", "+", ("str", b"v%d" % j), ("bi", "int_to_string", [("int", g.i(0, 99))]), "p")
    out.append(("expr", ("bi", "map_put", [("var", hm), keys[0], val(1)])))
    out.append(("expr", ("bi", "map_put", [("var", hm), keys[1], val(2)])))
    out.append(("expr", ("bi", "map_put", [("var", hm), keys[0], val(3)])))       # overwrite
    out.append(("println", ("bi", "map_get", [("var", hm), keys[0]])))
    if g.b():
        out.append(("expr", ("bi", "map_put", [("var", hm), keys[0], val(4)])))   # and again
        out.append(("println", ("bi", "map_get", [("var", hm), keys[0]])))
    out.append(("println", ("bi", "map_has", [("var", hm), keys[2]])))
    out.append(("println", ("bi", "map_length", [("var", hm)])))
    if g.b():
        out.append(("expr", ("bi", "map_remove", [("var", hm), keys[1]])))
        out.append(("println", ("bi", "map_has", [("var", hm), keys[1]])))
        out.append(("println", ("bi", "map_length", [("var", hm)])))
    out.append(("println", ("bi", "map_get", [("var", hm), keys[0]])))
    g.use("hashmap_idiom_%s_%s" % (kt, vt))


def gen_guard_idiom(g, sc, cx, out):
    """Index guards that rely on short-circuit evaluation: the loop runs one past the end of the array and the element
    is only read behind `(or (>= i n) ..)` / `(and (< i n) ..)`."""
    n = g.i(1, 4)
    xs = g.fresh()
    vals = [g.i(-3, 9) for _ in range(n)]
    out.append(("let", xs, t_array("int"), ("arr", "int", [("int", v) for v in vals]), False))
    sc.vars[xs] = (t_array("int"), False, {"minlen": n})
    i = g.fresh("w")
    out.append(("let", i, "int", ("int", 0), True))
    sc.vars[i] = ("int", True, {})
    k = g.pick(vals + [100])
    at = ("bi", "at", [("var", xs), ("var", i)])
    body = []
    forms = g.i(0, 2)
    if forms in (0, 2):
        body.append(("if", ("bin", "or", ("bin", ">=", ("var", i), ("int", n), g.style()), ("bin", "==", at, ("int", k), g.style()), g.style()),
                     [("println", ("var", i))], None))
    if forms in (1, 2):
        body.append(("if", ("bin", "and", ("bin", "<", ("var", i), ("int", n), g.style()), ("bin", ">", at, ("int", k), g.style()), g.style()),
                     [("println", at)], None))
    body.append(("set", i, ("bin", "+", ("var", i), ("int", 1), g.style())))
    out.append(("while", ("bin", "<=", ("var", i), ("int", n), g.style()), body))
    g.use("guard_idiom")


def gen_match(g, sc, cx, out, budget):
    us = [(n, v) for n, v in sc.all_vars().items() if isinstance(v[0], tuple) and v[0][0] == "union"]
    if not us:
        return
    n, v = g.pick(us)
    variants = dict(g.unions)[v[0][1]]
    arms = []
    for (vn, fs) in variants:
        b = g.fresh("m")
        inner = child_scope(sc)
        body = []
        for f, ft in fs:
            if printable(ft):
                body.append(("println", ("field", ("var", b), f)))
        # binder has a struct-like type: expose its fields through a pseudo struct
        inner.vars[b] = (("variant", v[0][1], vn), False, {})
        if cx.loop_depth > 0 and g.has("break") and g.has("exit_in_match_arm") and g.chance(1, 3):
            which = "break"
            if g.has("continue") and g.b() and (not cx.in_for or g.gate("continue_in_for")):
                which = "continue"
            body.append(("if", gen_bool_pure(g, sc, 1), [(which,)], None))
            g.use(which + "_in_match_arm")
        body += gen_block(g, inner, Ctx(cx.ret, cx.loop_depth, cx.in_for, cx.depth + 1, cx.fuel), budget // 3)
        arms.append((vn, b, body))
    out.append(("match", ("var", n), v[0][1], arms))
    g.use("match")


def gen_return_value(g, sc, cx):
    return gen_expr(g, sc, cx.ret, g.i(0, 2))


def gen_block(g, sc, cx, budget):
    out = []
    n = g.i(1, max(1, min(6, budget)))
    for _ in range(n):
        k = g.i(0, 27)
        if k == 27:
            if g.has("hashmaps") and g.has("strings"):
                gen_hashmap_idiom(g, sc, cx, out)
            else:
                gen_let(g, sc, cx, out)
        elif k == 26:
            if g.has("string_lifetimes") and g.has("strings"):
                gen_string_lifetimes(g, sc, cx, out)
            else:
                gen_let(g, sc, cx, out)
        elif k == 25:
            if g.has("guard_idiom") and g.has("arrays") and g.has("while") and cx.depth < 2 and cx.loop_depth < 1:
                gen_guard_idiom(g, sc, cx, out)
            else:
                gen_let(g, sc, cx, out)
        elif k == 24:
            if g.has("array_slice") and g.has("arrays") and g.has("array_mut"):
                gen_slice_idiom(g, sc, cx, out)
            else:
                gen_let(g, sc, cx, out)
        elif k >= 22:
            if g.has("loop_nest") and g.has("for") and g.has("while") and g.has("break") and cx.depth < 2 and cx.loop_depth < 1 and budget >= 2:
                gen_loop_nest(g, sc, cx, out)
            else:
                gen_let(g, sc, cx, out)
        elif k <= 4:
            gen_let(g, sc, cx, out)
        elif k <= 6:
            gen_set(g, sc, cx, out)
        elif k == 7:
            ty = g.pick(["int", "bool"] + (["string"] if g.has("strings") else []))
            if g.enums and g.has("enums") and g.chance(1, 5) and g.gate("print_enum"):
                ty = ("enum", g.pick(g.enums)[0])
                g.use("print_enum")
            out.append(("println", gen_expr(g, sc, ty, g.i(0, 3 if g.has("deep_expr") else 2))))
            g.use("println")
        elif k == 8 and g.has("print_stmt"):
            ty = g.pick(["int", "bool"] + (["string"] if g.has("strings") else []))
            out.append(("print", gen_expr(g, sc, ty, 1)))
            out.append(("println", ("str", b"")))
            g.use("print")
        elif k in (9, 10) and cx.depth < 3 and budget >= 2:
            gen_if(g, sc, cx, out, budget)
        elif k == 11 and g.has("while") and cx.depth < 3 and cx.loop_depth < 2 and budget >= 2:
            gen_while(g, sc, cx, out, budget)
        elif k == 12 and g.has("for") and cx.depth < 3 and cx.loop_depth < 2 and budget >= 2:
            gen_for(g, sc, cx, out, budget)
        elif k == 13 and g.has("arrays") and g.has("array_mut"):
            gen_array_mut(g, sc, cx, out)
        elif k == 14 and g.has("unions") and cx.depth < 3 and budget >= 2:
            gen_match(g, sc, cx, out, budget)
        elif k == 15 and cx.loop_depth > 0 and g.has("break") and g.chance(1, 2):
            # conditional break / continue, so the rest of the body stays reachable
            which = "break"
            if g.has("continue") and g.b():
                if cx.in_for and not g.gate("continue_in_for"):
                    which = "break"
                else:
                    which = "continue"
            out.append(("if", gen_bool_pure(g, sc, 1), [(which,)], None))
            g.use(which + ("_in_for" if cx.in_for else "_in_while"))
        elif k == 16 and g.has("early_return") and cx.depth > 0 and cx.ret is not None and g.chance(1, 2):
            out.append(("if", gen_bool_pure(g, sc, 1), [("return", gen_return_value(g, sc, cx))], None))
            g.use("early_return")
        elif k == 17 and g.has("functions") and g.has("unused_results"):
            c = gen_call(g, sc, g.pick(["int", "bool"]), 1)
            if c:
                out.append(("expr", c))
                g.use("call_stmt")
        elif k == 18 and g.has("fnvalues"):
            gen_fn_let(g, sc, cx, out)
        elif k == 19 and g.has("assert_stmt"):
            out.append(("assert", ("bin", "==", ("int", 1), ("int", 1), g.style())))
        elif k == 20 and g.has("for") and cx.depth < 3 and cx.loop_depth < 2 and budget >= 2:
            gen_for(g, sc, cx, out, budget)
        elif k == 21 and g.has("while") and cx.depth < 3 and cx.loop_depth < 2 and budget >= 2:
            gen_while(g, sc, cx, out, budget)
        else:
            gen_let(g, sc, cx, out)
    return out


# ----------------------------------------------------------------------------- functions / program
def gen_function(g, idx, gscope):
    name = "f_%d" % idx
    nparams = g.i(0, 3)
    ptypes = value_types(g)
    if not g.has("array_pass"):
        ptypes = [t for t in ptypes if not (isinstance(t, tuple) and t[0] == "array")]
    if not g.has("struct_pass"):
        ptypes = [t for t in ptypes if not (isinstance(t, tuple) and t[0] in ("struct", "union", "tuple"))]
    if any(isinstance(t, tuple) and t[0] == "tuple" for t in ptypes) and not g.gate("tuple_pass"):
        ptypes = [t for t in ptypes if not (isinstance(t, tuple) and t[0] == "tuple")]
    params = []
    recursive = g.has("recursion") and g.chance(1, 4)
    if recursive:
        params.append(("fuel", "int"))
    for j in range(nparams):
        params.append(("p_%d_%d" % (idx, j), g.pick(ptypes)))
    rts = scalar_types(g)
    if g.has("fn_returning_composite"):
        rts = rts + [t for t in value_types(g) if isinstance(t, tuple) and t[0] in ("struct", "union", "enum")]
        if g.has("tuples") and g.gate("tuple_pass"):
            rts = rts + [t for t in value_types(g) if isinstance(t, tuple) and t[0] == "tuple"]
    ret = g.pick(rts)
    sc = Scope(gscope)
    gscope.cur_fn = name
    for (pn, pt) in params:
        meta = {}
        sc.vars[pn] = (pt, False, meta)
    f = {"name": name, "params": params, "ret": ret, "body": [], "recursive": recursive}
    cx = Ctx(ret, 0, False, 0, recursive)
    body = gen_block(g, sc, cx, g.i(2, 6))
    if recursive:
        # if (> fuel 0) { ... recursive call ... }
        args = []
        gen = gen_args(g, sc, [pt for (pn, pt) in params if pn != "fuel"], 1)
        for (pn, pt) in params:
            if pn == "fuel":
                args.append(("bin", "-", ("var", "fuel"), ("int", 1), g.style()))
            else:
                args.append(gen.pop(0))
        rc = ("call", name, args)
        r = g.fresh("r")
        inner = [("let", r, ret, rc, False)]
        if printable(ret):
            inner.append(("println", ("var", r)))
        if g.b():
            inner.append(("return", ("var", r)))
        body.append(("if", ("bin", ">", ("var", "fuel"), ("int", 0), g.style()), inner, None))
        g.use("recursion")
    body.append(("return", maybe_bare(g, gen_expr(g, sc, ret, g.i(0, 2)))))
    f["body"] = body
    gscope.cur_fn = None
    return f


def gen_program(g):
    gen_typedefs(g)
    gscope = Scope(None)
    gscope.cur_fn = None
    if g.has("globals"):
        for _ in range(g.i(0, 3)):
            t = g.pick(scalar_types(g))
            if t == "float":
                e = lit_float(g)
            elif t == "int":
                e = ("int", g.pick(SMALL[:7] + [42, 100]))
            elif t == "bool":
                e = ("bool", g.b())
            else:
                e = lit_str(g)
            if g.has("global_init_expr") and g.chance(1, 3):
                # initialisers that need run-time evaluation: builtins that the code generators expand with temporaries,
                # arithmetic over earlier globals, string concatenation
                prev = [(pn, pt) for (pn, pt, _pe) in g.globals if pt == t]
                ref = ("var", g.pick(prev)[0]) if prev and g.b() else e
                if t == "int":
                    e = g.pick([("bi", "max", [ref, ("int", 7)]), ("bi", "min", [ref, ("int", 3)]), ("bi", "abs", [("int", -5)]),
                                ("bin", "+", ref, ("int", 2), "p"), ("bin", "*", ref, ("int", 3), "p")])
                elif t == "string":
                    e = ("bin", "+", ref, ("str", b"ab"), "p")
                elif t == "bool":
                    e = ("un", "not", ref, "p") if prev else e
                elif t == "float":
                    e = ("bin", "*", ref, ("float", 2.5), "p")
                g.use("global_init_expr")
            n = g.fresh("g")
            g.globals.append((n, t, e))
            gscope.vars[n] = (t, False, {})
            g.use("global")
    if g.has("functions"):
        for i in range(g.i(0, min(6, 1 + g.size))):
            f = gen_function(g, i, gscope)
            g.funcs.append(f)
    # main
    sc = Scope(gscope)
    gscope.cur_fn = "main"
    cx = Ctx("int", 0, False, 0)
    body = gen_block(g, sc, cx, g.i(3, 6 + g.size))
    # call every function at least once with literal-ish arguments, print printable results
    for f in g.funcs:
        if g.chance(2, 3):
            args = []
            gen = gen_args(g, sc, [pt for (pn, pt) in f["params"] if pn != "fuel"], 1)
            for (pn, pt) in f["params"]:
                args.append(("int", g.i(0, 4)) if pn == "fuel" else gen.pop(0))
            c = ("call", f["name"], args)
            if printable(f["ret"]):
                body.append(("println", c))
            else:
                n = g.fresh()
                body.append(("let", n, f["ret"], c, False))
                sc.vars[n] = (f["ret"], False, {})
    body.append(("return", ("int", g.i(0, 255))))
    main = {"name": "main", "params": [], "ret": "int", "body": body, "recursive": False, "callable": False}
    funcs = g.funcs + [main]
    if g.has("global_init_call") and g.has("globals") and g.has("functions") and g.chance(1, 4):
        # a global whose initialiser calls a user function with a visible effect: it must run exactly once, before main,
        # in every engine and every stored form of the program
        probe = {"name": "f_ginit", "params": [("a", "int")], "ret": "int", "recursive": False, "callable": False,
                 "body": [("println", ("var", "a")), ("return", ("bin", "+", ("var", "a"), ("int", 1), "p"))]}
        funcs = [probe] + funcs
        for _ in range(g.i(1, 2)):
            g.globals.append((g.fresh("g"), "int", ("call", "f_ginit", [("int", g.i(2, 9))])))
        g.use("global_init_call")
    prog = {"structs": g.structs, "enums": g.enums, "unions": g.unions, "globals": g.globals,
            "funcs": funcs, "features": dict(g.used), "excluded": dict(g.excluded)}
    return prog


@st.composite
def programs(draw, features=None, size=3):
    F = set(ALL_FEATURES if features is None else features)
    PRINTABLE_FLOAT[0] = "print_float" in F and "floats" in F
    g = Gen(draw, F, size)
    return gen_program(g)
