"""C01 - native (C-transpiled) and NanoVM backends are observationally equivalent.

Generated: typed core-language programs (progen). Oracle: differential - stdout bytes and exit status of the nanoc-built
executable vs `nano_virt --run`. refeval only discards programs that perform an undefined partial operation or exceed
the step budget; it does not vote here (C02 is the reference-model check).
"""
import json
import os
import sys

from . import common, harness, progen, refeval, runner, signatures
from .common import Evidence
from .harness import CaseFailure

PROP = "C01"
RULE = ("progen program over the documented core language; differential native vs VM on stdout bytes + exit status. "
        "non-trivial = (>= 2 functions or a loop executed) and >= 3 printed lines and >= 30 reference-evaluator steps; "
        "distinct by hash of the source text")


class Ctx:
    pass


def make_ctx(widx, tier, opts):
    ctx = Ctx()
    ctx.tools = runner.Tools("plain")
    ctx.dir = os.path.join(common.scratch(), "w%d" % widx)
    os.makedirs(ctx.dir, exist_ok=True)
    ctx.features, ctx.gated = harness.features_for(PROP)
    ctx.size = 3 if tier == "quick" else 4
    ctx.widx = widx
    return ctx


from hypothesis import strategies as st

BUNDLE = "# BUNDLE two files: main program p.nano and module m.nano\n"


def strategy(ctx):
    # the second component asks for the two-file rendering: up to k functions (and all type definitions) are moved to a
    # module that the main file imports; 0 = single file
    return st.tuples(progen.programs(features=ctx.features, size=ctx.size), st.sampled_from([0, 0, 0, 1, 2, 3]))


def render(case):
    prog, k = case
    if k:
        sp = progen.split_program(prog, k)
        if sp is not None:
            main_text, mod_text, moved = sp
            return BUNDLE + "#=== p.nano\n" + main_text + "#=== m.nano\n" + mod_text, moved
    return progen.print_program(prog), None


def unbundle(src):
    body = src[len(BUNDLE):]
    a = body.index("#=== p.nano\n") + len("#=== p.nano\n")
    b = body.index("#=== m.nano\n")
    return body[a:b], body[b + len("#=== m.nano\n"):]


def compare(ctx, src, name="p.nano"):
    """Returns (verdict, detail, nat, vm); verdict in same / differ / both_rejected / inconclusive / stuck."""
    if src.startswith(BUNDLE):
        import shutil
        d = os.path.join(ctx.dir, "two_" + name.replace(".nano", ""))
        shutil.rmtree(d, ignore_errors=True)       # nanoc keeps compiled modules under ./obj: never reuse them across cases
        os.makedirs(d)
        main_text, mod_text = unbundle(src)
        runner.write_src(d, "m.nano", mod_text)
        p = runner.write_src(d, "p.nano", main_text)
        vm = ctx.tools.run_vm(p, d)
        nat = ctx.tools.run_native(p, d)
        shutil.rmtree(d, ignore_errors=True)
    else:
        p = runner.write_src(ctx.dir, name, src)
        vm = ctx.tools.run_vm(p, ctx.dir)
        nat = ctx.tools.run_native(p, ctx.dir)
    if nat.cls == "inconclusive" or vm.cls == "inconclusive":
        return "inconclusive", "runner time-out", nat, vm
    if nat.cls == "rejected" and vm.cls == "rejected":
        return "both_rejected", "", nat, vm
    if nat.cls in ("normal", "documented_fault") and vm.cls in ("normal", "documented_fault"):
        if nat.out != vm.out:
            return "differ", "stdout differs", nat, vm
        if nat.cls == "normal" and vm.cls == "normal" and nat.rc != vm.rc:
            return "differ", "exit status differs (native %s, vm %s)" % (nat.rc, vm.rc), nat, vm
        if nat.cls != vm.cls:
            return "differ", "one backend ends normally, the other in a fault", nat, vm
        return "same", "", nat, vm
    # one side failed internally or was rejected by only one tool: C04/C05 matter, but output before the failure still counts
    good, bad = (nat, vm) if nat.cls in ("normal", "documented_fault") else (vm, nat)
    if bad.stage == "run" and not good.out.startswith(bad.out):
        return "differ", "output before an internal failure differs", nat, vm
    return "stuck", "%s / %s" % (nat.cls, vm.cls), nat, vm


def run_case(ctx, case, ev):
    prog = case[0]
    ref = refeval.run(prog)
    src, moved = render(case)
    if moved is not None:
        ev.cls("two_files")
        ev.cls("two_files_moved_functions", moved)
    for k, v in prog["excluded"].items():
        ev.exclude(k, v)
    if ref.kind != "normal":
        ev.cls("discarded_ref_" + ref.kind)
        ev.case(src, False)
        return
    verdict, detail, nat, vm = compare(ctx, src)
    nfun = len(prog["funcs"])
    nontrivial = (nfun >= 3 or ref.stats["loop_iters"] > 0) and ref.stats["lines"] >= 3 and ref.steps >= 30
    ev.case(src, nontrivial and verdict == "same")
    ev.cls("verdict_" + verdict)
    for k in prog["features"]:
        ev.cls("feat_" + k)
    if verdict == "same" and nontrivial and len(ev.samples) < 2 and ev.evaluations % 11 == 3:
        ev.sample({"source": src[:3000], "stdout": nat.out[:300].decode("utf-8", "replace"), "exit": nat.rc})
    if verdict == "inconclusive":
        ev.inconclusive += 1
    if verdict == "differ":
        raise CaseFailure(detail, {"native": nat.brief(), "vm": vm.brief()})


def describe_failure(ctx, case, cf):
    prog = case[0]
    src, _moved = render(case)
    open_sigs = [f.get("signature") for f in common.open_findings(PROP) if f.get("signature")]
    return {"src": src, "detail": cf.detail, "payload": cf.payload, "sigs": signatures.matching(prog, open_sigs)}


def check_source(ctx, src, times=3):
    """Re-execute a source without the library; True if it differs every time."""
    n = 0
    last = None
    for i in range(times):
        verdict, detail, nat, vm = compare(ctx, src, "confirm.nano")
        last = (verdict, detail, nat, vm)
        if verdict == "differ":
            n += 1
    return n == times, last


def replay(path):
    ctx = make_ctx(0, "quick", {})
    ctx.tools.prewarm(ctx.dir)
    src = open(path, encoding="utf-8", newline="").read()
    verdict, detail, nat, vm = compare(ctx, src, "replay.nano")
    print("replay:", verdict, detail)
    print("native:", nat)
    print("vm:", vm)
    return 1 if verdict == "differ" else 0


def main(tier):
    ev = Evidence(PROP, tier, "exploration", RULE)
    ctx = make_ctx(99, tier, {})
    ctx.tools.prewarm(ctx.dir)
    nviol = 0
    for f in common.open_findings(PROP):
        rp = os.path.join(common.VERIF, f["replay"][PROP])
        bad, last = check_source(ctx, open(rp, encoding="utf-8", newline="").read(), 1)
        if bad:
            common.report_known(PROP, "%s [%s]" % (f["what"], f["id"]))
            ev.known.append(f["id"])
        else:
            print("note: known finding %s no longer reproduces (%s)" % (f["id"], last[0]))
    for f in common.fixed_findings(PROP):
        rp = os.path.join(common.VERIF, f["replay"][PROP])
        bad, last = check_source(ctx, open(rp, encoding="utf-8", newline="").read(), 1)
        ev.cls("fixed_regression_replayed")
        if bad:
            print("C01: fixed finding %s is back: %s" % (f["id"], last[1]))
            common.report_violation(PROP, rp)
            nviol += 1
    total = 1600 if tier == "quick" else 24000
    results = harness.run_workers("pbt.c01_backends", tier, total)
    for r in results:
        ev.merge(r["evidence"])
        if r["error"]:
            print("C01: worker %d harness error (not a verdict):\n%s" % (r["widx"], r["error"]), file=sys.stderr)
            ev.cls("worker_errors")
        fl = r["failure"]
        if fl:
            ok, last = check_source(ctx, fl["src"])
            if not ok:
                ev.inconclusive += 1
                ev.cls("unconfirmed_failure")
                continue
            if fl["sigs"]:
                ev.cls("failure_matching_known_signature")
                print("note: failure matches open finding signature(s) %s" % fl["sigs"])
                continue
            p = common.save_replay(PROP, "diff_seed%d_w%d.nano" % (common.seed(), r["widx"]), fl["src"])
            print("C01: %s\n  native: %s\n  vm: %s" % (fl["detail"], json.dumps(fl["payload"].get("native"))[:600],
                                                         json.dumps(fl["payload"].get("vm"))[:600]))
            common.report_violation(PROP, p)
            nviol += 1
    ev.extra["gated_features"] = ctx.gated
    ev.assumptions = ["programs the reference evaluator finds undefined or over budget are discarded (counted under classes.discarded_*)",
                      "native programs are linked against a prebuilt archive of src/runtime/*.c compiled with nanoc's own flags (tools/nanocc)"]
    if ev.classes.get("worker_errors"):
        print("C01: harness errors in workers; see stderr", file=sys.stderr)
        ev.write()
        sys.exit(2)
    common.finish(ev, nviol)
