"""C04 - accepted programs never get stuck on any backend.

Domain: (a) progen programs (accepted by construction), (b) AST-level mutants of them that may or may not still be
well-typed - with the type checker itself as the filter: a mutant is in the domain iff `nano_virt --emit-nvm` gets
through lexing, parsing and type checking without printing any diagnostic.
Oracle (validity predicate): nanoc exits 0 (no 'Transpilation failed', no 'C compilation failed'), nano_virt
--emit-nvm succeeds, --run passes the bytecode verifier, and both runs end `normal` or in a documented fault
(failed assert, index out of bounds, division by zero, call depth).
"""
import copy
import json
import os
import re
import sys

from hypothesis import strategies as st

from . import common, harness, progen, refeval, runner, signatures
from .common import Evidence
from .harness import CaseFailure

PROP = "C04"
RULE = ("progen program, optionally with 1-3 AST mutations (operator swapped, operand replaced by a variable/literal of "
        "any type, arguments swapped, declared type changed, name reused); in domain iff the front end accepts it "
        "silently. non-trivial = a mutant that survived the type checker, or a program using >= 3 type constructors; "
        "distinct by source hash")

DIAG = re.compile(rb"(^-- [A-Z ]+ -+|^Error|^error:|[Tt]ype check(ing)? failed|Parse error|^Warning: .*never)", re.M)
BANNER = re.compile(rb"^-- [A-Z][A-Z ]+ -+", re.M)


class Ctx:
    pass


def make_ctx(widx, tier, opts):
    ctx = Ctx()
    ctx.tools = runner.Tools("plain")
    ctx.dir = os.path.join(common.scratch(), "w%d" % widx)
    os.makedirs(ctx.dir, exist_ok=True)
    ctx.features, ctx.gated = harness.features_for(PROP)
    ctx.size = 3
    ctx.widx = widx
    ctx.open_sigs = [f.get("signature") for f in common.open_findings(PROP) if f.get("signature")]
    return ctx


def strategy(ctx):
    return st.tuples(progen.programs(features=ctx.features, size=ctx.size),
                     st.lists(st.tuples(st.integers(0, 5), st.integers(0, 10 ** 6), st.integers(0, 10 ** 6)), min_size=0, max_size=3))


# ----------------------------------------------------------------------------- mutation
OPS = ["+", "-", "*", "/", "%", "==", "!=", "<", "<=", ">", ">=", "and", "or"]


def expr_sites(prog):
    """(container, key) pairs of mutable expression positions, skipping loop headers, loop counters and fuel plumbing."""
    sites = []

    def visit_expr(cont, key):
        e = cont[key]
        if not isinstance(e, tuple) or not e:
            return
        sites.append((cont, key))
        k = e[0]
        if k in ("bin",):
            l = list(e)
            for i in (2, 3):
                visit_into(l, i)
        elif k == "un":
            visit_into(list(e), 2)
        elif k in ("call", "bi", "callv"):
            pass
        # deeper positions are reached through rebuild(); keep the site list simple: top positions and binary operands

    def visit_into(lst, i):
        pass

    def walk(body):
        for idx, s in enumerate(body):
            k = s[0]
            if k == "let" and not s[1].startswith(("w_", "r_")):
                sites.append((body, idx, 3))
            elif k == "set" and not s[1].startswith("w_"):
                sites.append((body, idx, 2))
            elif k in ("println", "print", "expr"):
                sites.append((body, idx, 1))
            elif k == "return" and s[1] is not None:
                sites.append((body, idx, 1))
            elif k == "if":
                if not any(x and x[0] == "var" and x[1] == "fuel" for x in harness.walk_exprs(s[1])):
                    sites.append((body, idx, 1))   # recursion guards stay intact: mutants must still terminate
                walk(s[2])
                if s[3]:
                    walk(s[3])
            elif k == "while":
                walk(s[2])
            elif k == "for":
                walk(s[4])
            elif k == "match":
                for (_v, _b, b2) in s[3]:
                    walk(b2)
    for f in prog["funcs"]:
        walk(f["body"])
    return sites


def all_names(prog):
    names = []
    for f in prog["funcs"]:
        for p, _ in f["params"]:
            names.append(p)
        for s, _ in harness.walk_stmts(f["body"]):
            if s[0] == "let":
                names.append(s[1])
    for (n, _t, _e) in prog["globals"]:
        names.append(n)
    return sorted(set(n for n in names if not n.startswith(("w_", "fuel"))))


def subexprs(e, path=()):
    """All (path, node) of expression nodes inside e (paths index into tuples/lists)."""
    out = [(path, e)]
    if isinstance(e, tuple) and e:
        k = e[0]
        idxs = []
        if k == "bin":
            idxs = [2, 3]
        elif k == "un":
            idxs = [2]
        elif k in ("call", "bi"):
            for i, a in enumerate(e[2]):
                out += subexprs(a, path + (2, i))
        elif k == "callv":
            for i, a in enumerate(e[2]):
                out += subexprs(a, path + (2, i))
        elif k in ("field", "tidx"):
            idxs = [1]
        for i in idxs:
            out += subexprs(e[i], path + (i,))
    return out


def replace_at(e, path, new):
    if not path:
        return new
    i = path[0]
    if isinstance(e, tuple):
        l = list(e)
        l[i] = replace_at(l[i], path[1:], new)
        return tuple(l)
    l = list(e)
    l[i] = replace_at(l[i], path[1:], new)
    return l


LITS = [("int", 0), ("int", 7), ("int", -1), ("str", b"m"), ("bool", True), ("float", 1.5), ("int", 9223372036854775807)]
TYPES = ["int", "bool", "string", "float", ("array", "int")]


def mutate(prog, muts):
    p = copy.deepcopy(prog)
    names = all_names(p)
    applied = []
    for (kind, a, b) in muts:
        sites = expr_sites(p)
        if not sites:
            break
        body, idx, pos = sites[a % len(sites)]
        stmt = list(body[idx])
        e = stmt[pos]
        subs = subexprs(e)
        path, node = subs[b % len(subs)]
        new = None
        if kind == 0 and isinstance(node, tuple) and node[0] == "bin":
            new = ("bin", OPS[(a + b) % len(OPS)], node[2], node[3], node[4])
            applied.append("op_swap")
        elif kind == 1 and names:
            new = ("var", names[(a * 31 + b) % len(names)])
            applied.append("operand_to_var")
        elif kind == 2:
            new = LITS[(a + b) % len(LITS)]
            applied.append("operand_to_literal")
        elif kind == 3 and isinstance(node, tuple) and node[0] in ("call", "bi", "callv") and len(node[2]) >= 2:
            args = list(node[2])
            args[0], args[-1] = args[-1], args[0]
            new = (node[0], node[1], args)
            applied.append("args_swapped")
        elif kind == 4 and stmt[0] == "let":
            stmt[2] = TYPES[(a + b) % len(TYPES)]
            body[idx] = tuple(stmt)
            applied.append("let_type_changed")
            continue
        elif kind == 5 and isinstance(node, tuple) and node[0] == "bin" and node[1] in ("<", "<=", ">", ">=", "==", "!="):
            new = ("bin", node[1], ("str", b"a"), ("str", b"b"), node[4])
            applied.append("compare_strings")
        if new is None:
            continue
        stmt[pos] = replace_at(e, path, new)
        body[idx] = tuple(stmt)
    return p, applied


# ----------------------------------------------------------------------------- oracle
def accepted_silently(ctx, path):
    """(accepted, stage) - the front end accepted the program without printing a diagnostic."""
    out = path[:-5] + ".nvm"
    rc, o, e, to = ctx.tools.emit_nvm(path, out, ctx.dir)
    if to:
        return None, "timeout", e
    front_fail = any(x in e for x in (b"error: lexer failed", b"error: parser failed", b"error: module loading failed",
                                      b"error: type check failed"))
    if front_fail:
        return False, "rejected", e
    if BANNER.search(e) or re.search(rb"^Error", e, re.M):
        return False, "diagnostic_without_failure", e
    if rc != 0:
        return True, "emit_failed", e
    return True, "ok", e


def check_program(ctx, src, name="p.nano"):
    """Returns (domain, problems[list of (engine, detail, brief)])"""
    if src.startswith("# BUNDLE"):
        # two-file replay (main program + module), format of pbt/c01_backends.py
        from . import c01_backends
        import shutil
        d = os.path.join(ctx.dir, "two_" + name.replace(".nano", ""))
        shutil.rmtree(d, ignore_errors=True)
        os.makedirs(d)
        main_text, mod_text = c01_backends.unbundle(src)
        runner.write_src(d, "m.nano", mod_text)
        p = runner.write_src(d, "p.nano", main_text)
        saved_dir, ctx.dir = ctx.dir, d
        try:
            return check_program(ctx, main_text, "p.nano")
        finally:
            ctx.dir = saved_dir
    p = runner.write_src(ctx.dir, name, src)
    acc, stage, err = accepted_silently(ctx, p)
    if acc is None:
        return "inconclusive", []
    if not acc:
        return stage, []
    problems = []
    vm = None
    if stage == "emit_failed":
        problems.append(("vm", "bytecode generation failed for an accepted program", {"err": err[-500:].decode("utf-8", "replace")}))
    else:
        vm = ctx.tools.run_vm(p, ctx.dir)
        if vm.cls == "inconclusive":
            return "inconclusive", []
        if vm.cls == "internal_failure":
            problems.append(("vm", "VM run ended in an internal failure: " + vm.detail, vm.brief()))
        elif vm.cls == "rejected":
            problems.append(("vm", "--run rejected a program --emit-nvm accepted", vm.brief()))
    nat = ctx.tools.run_native(p, ctx.dir)
    if nat.cls == "inconclusive":
        return "inconclusive", []
    if (nat.cls == "internal_failure" and nat.stage != "compile" and nat.detail == "SIGSEGV" and vm is not None
            and vm.cls == "documented_fault" and "Call depth exceeded" in vm.detail):
        # the documented "call depth limit": the VM stops at VM_MAX_FRAMES, the native program (which has no counter) at the
        # end of its C stack - same fault, reached a few thousand frames later
        ctx.depth_faults = getattr(ctx, "depth_faults", 0) + 1
    elif nat.cls == "internal_failure":
        problems.append(("native", ("native compile: " if nat.stage == "compile" else "native run: ") + nat.detail, nat.brief()))
    elif nat.cls == "rejected":
        # nanoc runs shadow tests with the compile-time evaluator: a refusal there is C03/C06 matter, a type error is not
        if b"Shadow test" in nat.out + nat.err or b"shadow test" in nat.out + nat.err:
            pass
        else:
            problems.append(("native", "nanoc rejected a program nano_virt's type checker accepted silently", nat.brief()))
    return "in_domain", problems


def run_case(ctx, case, ev):
    prog, muts = case
    for k, v in prog["excluded"].items():
        ev.exclude(k, v)
    if muts:
        mprog, applied = mutate(prog, muts)
    else:
        mprog, applied = prog, []
    if applied:
        # mutants that have the trigger shape of an open ledger entry are excluded by construction (and counted)
        known = signatures.matching(mprog, ctx.open_sigs)
        if known:
            for kname in known:
                ev.exclude("mutant_with_known_shape:" + kname)
            return
    try:
        src = progen.print_program(mprog)
    except Exception:
        ev.cls("mutant_unprintable")
        return
    if not applied:
        ref = refeval.run(prog)
        if ref.kind == "budget":
            ev.cls("discarded_ref_budget")
            return
    domain, problems = check_program(ctx, src)
    ncons = sum(1 for k in ("struct_literal", "tuple_literal", "union_construct", "array_literal", "enum_value", "fnref")
                if mprog["features"].get(k))
    nontrivial = domain == "in_domain" and (bool(applied) or ncons >= 3)
    ev.case(src, nontrivial)
    ev.cls(("mutant_" if applied else "plain_") + domain)
    for a in set(applied):
        ev.cls("mutation_" + a + ("_survived" if domain == "in_domain" else "_rejected"))
    if domain == "inconclusive":
        ev.inconclusive += 1
    if nontrivial and applied and len(ev.samples) < 2 and ev.evaluations % 5 == 1:
        ev.sample({"surviving_mutant": src[:2000], "mutations": applied})
    if problems:
        e, detail, brief = problems[0]
        raise CaseFailure("%s: %s" % (e, detail), {"engine": e, "brief": brief, "mutations": applied, "mprog": mprog})


def describe_failure(ctx, case, cf):
    mprog = cf.payload.get("mprog") or case[0]
    src = progen.print_program(mprog)
    open_sigs = [f.get("signature") for f in common.open_findings(PROP) if f.get("signature")]
    pl = dict(cf.payload)
    pl.pop("mprog", None)
    return {"src": src, "detail": cf.detail, "payload": pl, "sigs": signatures.matching(mprog, open_sigs)}


def confirm(ctx, src, times=3):
    n = 0
    last = None
    for _ in range(times):
        domain, problems = check_program(ctx, src, "confirm.nano")
        last = (domain, problems)
        if domain == "in_domain" and problems:
            n += 1
    return n == times, last


def replay(path):
    ctx = make_ctx(0, "quick", {})
    ctx.tools.prewarm(ctx.dir)
    src = open(path, encoding="utf-8", newline="").read()
    domain, problems = check_program(ctx, src, "replay.nano")
    print("replay: domain=%s" % domain)
    for (e, d, b) in problems:
        print("  %s: %s\n  %s" % (e, d, json.dumps(b)[:900]))
    return 1 if (domain == "in_domain" and problems) else 0


# ----------------------------------------------------------------------------- placement matrix
# Statements whose C translation needs a declaration collected by a pre-pass (function-pointer typedefs, tuple typedefs,
# struct / union compound literals), each as the ONLY occurrence of its type, inside every kind of statement container.
PM_DECLS = ("struct PmS { a: int, s: string }\nunion PmU { A { x: int }, B { s: string } }\n"
            "fn pm_f(a: int, s: string) -> string {\n    return (+ s (int_to_string a))\n}\nshadow pm_f { assert true }\n"
            "fn pm_g(a: bool) -> int {\n    return 3\n}\nshadow pm_g { assert true }\n")
PM_STATEMENTS = {
    "fn_let": ["let h: fn(int, string) -> string = pm_f", '(println (h 1 "z"))'],
    "fn_let_other_signature": ["let h: fn(bool) -> int = pm_g", "(println (h true))"],
    "tuple_let": ['let t: (int, string, bool) = (4, "tt", true)', "(println t.1)"],
    "struct_let": ['let p: PmS = PmS { a: 5, s: "ss" }', "(println p.s)"],
    "union_let": ['let u: PmU = PmU.B { s: "uu" }', "match u {", "    A(q) => { (println q.x) }", "    B(q) => { (println q.s) }", "}"],
    "array_of_string_let": ['let a: array<string> = ["p", "q"]', "(println (at a 1))"],
}
PM_CONTAINERS = {
    "top": "%s",
    "if_then": "if (== c 1) {\n%s\n}",
    "if_else": "if (== c 2) {\n    (println 0)\n} else {\n%s\n}",
    "else_if": "if (== c 2) {\n    (println 0)\n} else if (== c 1) {\n%s\n} else {\n    (println 9)\n}",
    "else_of_else_if": "if (== c 2) {\n    (println 0)\n} else if (== c 3) {\n    (println 9)\n} else {\n%s\n}",
    "while": "let mut w: int = 0\nwhile (< w 1) {\n    set w (+ w 1)\n%s\n}",
    "for": "for i in (range 0 1) {\n%s\n}",
    "match_arm": "let m: PmU = PmU.A { x: 1 }\nmatch m {\n    A(z) => {\n%s\n    }\n    B(z) => { (println z.s) }\n}",
    "nested_else_in_while": "let mut w: int = 0\nwhile (< w 1) {\n    set w (+ w 1)\n    if (== c 2) {\n        (println 0)\n    } else {\n%s\n    }\n}",
    "unsafe_block": "unsafe {\n%s\n}",
}


def placement_matrix():
    out = {}
    for sn, stmts in PM_STATEMENTS.items():
        for cn, tmpl in PM_CONTAINERS.items():
            inner = "\n".join("        " + l for l in stmts)
            body = tmpl % inner
            for where in ("main", "helper"):
                if where == "main":
                    src = PM_DECLS + "fn main() -> int {\n    let c: int = 1\n" + "\n".join("    " + l for l in body.split("\n")) + "\n    return 0\n}\nshadow main { assert true }\n"
                else:
                    src = (PM_DECLS + "fn pm_host(c: int) -> int {\n" + "\n".join("    " + l for l in body.split("\n")) + "\n    return c\n}\nshadow pm_host { assert true }\n"
                           "fn main() -> int {\n    (println (pm_host 1))\n    return 0\n}\nshadow main { assert true }\n")
                out["%s/%s/%s" % (sn, cn, where)] = src
    return out


def matrix_job(args):
    widx, items = args
    ctx = make_ctx(300 + widx, "quick", {})
    res = []
    for (name, src) in items:
        domain, problems = check_program(ctx, src, "pm.nano")
        res.append((name, domain, problems, src))
    return res


def main(tier):
    ev = Evidence(PROP, tier, "exploration", RULE)
    ctx = make_ctx(99, tier, {})
    ctx.tools.prewarm(ctx.dir)
    nviol = 0
    seen_known = set()
    for f in common.open_findings(PROP):
        rp = os.path.join(common.VERIF, f["replay"][PROP])
        bad, last = confirm(ctx, open(rp, encoding="utf-8", newline="").read(), 1)
        if bad:
            common.report_known(PROP, "%s [%s]" % (f["what"], f["id"]))
            ev.known.append(f["id"])
        else:
            print("note: known finding %s no longer reproduces (%s)" % (f["id"], last[0]))
    done = set()
    for f in common.fixed_findings(PROP):
        rp = os.path.join(common.VERIF, f["replay"][PROP])
        if rp in done:
            continue
        done.add(rp)
        bad, last = confirm(ctx, open(rp, encoding="utf-8", newline="").read(), 1)
        ev.cls("fixed_regression_replayed")
        if bad:
            print("C04: fixed finding %s is back: %s" % (f["id"], last[1][0][1] if last[1] else ""))
            common.report_violation(PROP, rp)
            nviol += 1
    # placement matrix (exhaustive: 6 statements x 10 containers x 2 hosts)
    pm = sorted(placement_matrix().items())
    chunks = [pm[i::common.NCPU] for i in range(common.NCPU)]
    roots = set()
    for lst in common.parallel_map(matrix_job, [(i, c) for i, c in enumerate(chunks) if c]):
        for (name, domain, problems, src) in lst:
            ev.case("placement:" + name, domain == "in_domain" and not problems)
            ev.cls("placement_" + domain)
            if domain == "in_domain" and problems:
                root = name.split("/")[0] + "/" + name.split("/")[1]
                if root in roots:
                    continue
                roots.add(root)
                bad, last = confirm(ctx, src, 2)
                if not bad:
                    ev.inconclusive += 1
                    continue
                p = common.save_replay(PROP, "placement_%s.nano" % name.replace("/", "_"), src)
                print("C04: %s: %s: %s" % (name, problems[0][0], problems[0][1]))
                common.report_violation(PROP, p)
                nviol += 1
    total = 1200 if tier == "quick" else 20000
    results = harness.run_workers("pbt.c04_no_stuck", tier, total)
    for r in results:
        ev.merge(r["evidence"])
        if r["error"]:
            print("C04: worker %d harness error (not a verdict):\n%s" % (r["widx"], r["error"]), file=sys.stderr)
            ev.cls("worker_errors")
        fl = r["failure"]
        if fl:
            ok, last = confirm(ctx, fl["src"])
            if not ok:
                ev.inconclusive += 1
                ev.cls("unconfirmed_failure")
                continue
            if fl["sigs"]:
                ev.cls("failure_matching_known_signature")
                print("note: failure matches open finding signature(s) %s" % fl["sigs"])
                continue
            p = common.save_replay(PROP, "stuck_seed%d_w%d.nano" % (common.seed(), r["widx"]), fl["src"])
            print("C04: %s (mutations: %s)\n  %s" % (fl["detail"], fl["payload"].get("mutations"), json.dumps(fl["payload"].get("brief"))[:900]))
            common.report_violation(PROP, p)
            nviol += 1
    ev.extra["gated_features"] = ctx.gated
    ev.assumptions = ["'accepted' is observed through nano_virt: no front-end failure and no diagnostic banner on stderr",
                      "a refusal by nanoc's compile-time shadow evaluation is C03/C06 matter and not counted here"]
    if ev.classes.get("worker_errors"):
        ev.write()
        sys.exit(2)
    common.finish(ev, nviol)
