"""C06 - shadow tests gate compilation.

Generated: programs of 1-12 small arithmetic functions whose shadow blocks contain assertions with constructed truth
values (conditions over literals and over calls of straight-line helpers whose values the generator computes itself),
with false assertions - none, one or several - placed first / middle / last in a block, inside if / while / for bodies
executed 0, 1 or many times, after passing assertions, in the first / last of many shadow blocks, inside a function
called by the shadow block; plus functions with no shadow block at all.
Oracle (reference truth table): some executed assertion is false  <=>  nanoc exits non-zero, names each failing test in a
"Shadow test '<f>' FAILED" line and leaves no executable at the (fresh) output path; all executed assertions true =>
exit 0, executable written and it runs; every function without a shadow block is reported.
"""
import json
import os
import re
import sys

from hypothesis import strategies as st

from . import common, harness, runner
from .common import Evidence
from .harness import CaseFailure

PROP = "C06"
RULE = ("template program with constructed assertion truth values; non-trivial = a false assertion that is not the first "
        "statement of its block, or sits inside a loop / branch / callee, or the program has >= 4 shadow blocks, or a "
        "false assertion that is never executed (guarded by a false condition / zero-iteration loop); distinct by source hash")


@st.composite
def case(draw):
    nf = draw(st.integers(1, 12))
    funcs = []
    for i in range(nf):
        k = draw(st.integers(-5, 9))
        c = draw(st.integers(-20, 20))
        has_shadow = draw(st.integers(0, 9)) > 0 or i == 0
        ext = i > 0 and draw(st.integers(0, 6)) == 0
        asserts = []
        for _ in range(draw(st.integers(1, 5))):
            x = draw(st.integers(-9, 9))
            truth = draw(st.integers(0, 9)) > 1 if draw(st.booleans()) else True
            wrap = draw(st.sampled_from(["plain", "plain", "if_true", "if_false", "while0", "while1", "while3", "for0", "for2", "callee", "else_branch",
                                         "after_for_break", "after_while_break", "after_for_continue", "after_nested_break", "in_for_after_break_of_inner"]))
            form = draw(st.sampled_from(["call_eq", "call_lt", "literal", "and", "not"]))
            asserts.append({"x": x, "truth": truth, "wrap": wrap, "form": form})
        # contracts: a clause that is violated exactly by the calls whose result equals the clause's constant
        contract = draw(st.sampled_from([None, None, None, "ensures", "ensures", "requires"])) if (i > 0 and not ext) else None
        funcs.append({"k": k, "c": c, "shadow": has_shadow, "asserts": asserts, "ext": ext, "contract": contract,
                      "x0": draw(st.integers(-9, 9)), "tail": draw(st.booleans())})
    return {"funcs": funcs}


def cond_text(fi, f, a):
    val = f["k"] * (abs(a["x"]) if f.get("ext") else a["x"]) + f["c"]
    t = a["truth"]
    if a["form"] == "call_eq":
        return "(== (h_%d %d) %d)" % (fi, a["x"], val if t else val + 1)
    if a["form"] == "call_lt":
        return "(< (h_%d %d) %d)" % (fi, a["x"], val + 1 if t else val)
    if a["form"] == "literal":
        return "(== %d %d)" % (a["x"], a["x"] if t else a["x"] + 1)
    if a["form"] == "and":
        return "(and (== (h_%d %d) %d) %s)" % (fi, a["x"], val, "true" if t else "false")
    return "(not (== (h_%d %d) %d))" % (fi, a["x"], val + 1 if t else val)


EXT_NO_SHADOW_KNOWN = [False, 0]      # [ledger lists the finding, number of exclusions in this process]
EXTERN_OK = [None]      # does the front end accept a direct extern call outside `unsafe`? (probed once per process)


def build(c):
    """Returns (source, failing test names, missing-shadow names, executed_false_count, has_unexecuted_false)."""
    L = []
    use_ext = bool(EXTERN_OK[0])
    if use_ext and any(f.get("ext") for f in c["funcs"]):
        L.append("extern fn labs(x: int) -> int")
    failing = []
    missing = []
    unexec_false = False
    nexec_false = 0
    contract_hits = [0]
    for fi, f in enumerate(c["funcs"]):
        if f.get("ext") and not use_ext:
            f = dict(f, ext=False)
        if f.get("ext") and not f["shadow"] and EXT_NO_SHADOW_KNOWN[0]:
            # open finding missing-shadow-not-reported-for-extern-users: such a function is not reported; excluded by construction
            f = dict(f, shadow=True)
            EXT_NO_SHADOW_KNOWN[1] += 1
        if f.get("ext"):
            # a function that calls an extern function directly: nanoc skips its shadow block (its assertions are not executed)
            L.append("fn h_%d(a: int) -> int {\n    return (+ (* (labs a) %d) %d)\n}" % (fi, f["k"], f["c"]))
        else:
            clause = ""
            if f.get("contract") == "ensures":
                clause = "\n    ensures (!= result %d)\n" % (f["k"] * f["x0"] + f["c"])
            elif f.get("contract") == "requires":
                clause = "\n    requires (!= a %d)\n" % f["x0"]
            body_line = "(+ (* a %d) %d)" % (f["k"], f["c"]) if f.get("tail") else "return (+ (* a %d) %d)" % (f["k"], f["c"])
            L.append("fn h_%d(a: int) -> int%s{\n    %s\n}" % (fi, clause if clause else " ", body_line))
        if not f["shadow"]:
            missing.append("h_%d" % fi)
            continue
        body = []
        callees = []
        fails = False
        for ai, a in enumerate(f["asserts"]):
            ct = cond_text(fi, f, a)
            w = a["wrap"]
            executed = True
            if w == "plain":
                body.append("    assert %s" % ct)
            elif w == "if_true":
                body += ["    if (== 1 1) {", "        assert %s" % ct, "    }"]
            elif w == "if_false":
                body += ["    if (== 1 2) {", "        assert %s" % ct, "    }"]
                executed = False
            elif w == "else_branch":
                body += ["    if (== 1 2) {", '        (print "")', "    } else {", "        assert %s" % ct, "    }"]
            elif w.startswith("while"):
                n = int(w[5:])
                v = "w_%d_%d" % (fi, ai)
                body += ["    let mut %s: int = 0" % v, "    while (< %s %d) {" % (v, n), "        set %s (+ %s 1)" % (v, v), "        assert %s" % ct, "    }"]
                executed = n > 0
            elif w.startswith("for"):
                n = int(w[3:])
                body += ["    for q_%d_%d in (range 0 %d) {" % (fi, ai, n), "        assert %s" % ct, "    }"]
                executed = n > 0
            elif w == "after_for_break":
                body += ["    for q_%d_%d in (range 0 3) {" % (fi, ai), "        if (== q_%d_%d 1) {" % (fi, ai), "            break", "        }", "    }", "    assert %s" % ct]
            elif w == "after_for_continue":
                body += ["    for q_%d_%d in (range 0 3) {" % (fi, ai), "        if (== q_%d_%d 1) {" % (fi, ai), "            continue", "        }", "    }", "    assert %s" % ct]
            elif w == "after_while_break":
                v = "w_%d_%d" % (fi, ai)
                body += ["    let mut %s: int = 0" % v, "    while (< %s 5) {" % v, "        set %s (+ %s 1)" % (v, v), "        if (== %s 2) {" % v, "            break", "        }", "    }", "    assert %s" % ct]
            elif w == "after_nested_break":
                body += ["    if (== 1 1) {", "        for q_%d_%d in (range 0 3) {" % (fi, ai), "            if (== q_%d_%d 0) {" % (fi, ai), "                break", "            }", "        }", "    }", "    assert %s" % ct]
            elif w == "in_for_after_break_of_inner":
                body += ["    for o_%d_%d in (range 0 2) {" % (fi, ai), "        for q_%d_%d in (range 0 3) {" % (fi, ai), "            if (== q_%d_%d 1) {" % (fi, ai), "                break", "            }", "        }", "        assert %s" % ct, "    }"]
            elif w == "callee":
                cn = "chk_%d_%d" % (fi, ai)
                callees.append("fn %s(z: int) -> int {\n    assert %s\n    return z\n}\nshadow %s { assert true }" % (cn, ct, cn))
                body.append("    assert (== (%s 4) 4)" % cn)
            if f.get("ext"):
                executed = False
            # a call made by this assertion that violates the function's contract is a failed (injected) assertion of the
            # shadow test that is running, whatever the truth of the assertion itself
            if executed and a["form"] != "literal" and f.get("contract"):
                bad = (f["k"] * a["x"] + f["c"] == f["k"] * f["x0"] + f["c"]) if f["contract"] == "ensures" else (a["x"] == f["x0"])
                if bad:
                    fails = True
                    nexec_false += 1
                    contract_hits[0] += 1
            if not a["truth"]:
                if executed:
                    fails = True
                    nexec_false += 1
                else:
                    unexec_false = True
        L.append("shadow h_%d {\n%s\n}" % (fi, "\n".join(body)))
        L += callees
        if fails:
            failing.append("h_%d" % fi)
    L.append("fn main() -> int {\n    (println (h_0 1))\n    return 0\n}\nshadow main { assert true }")
    return "\n".join(L) + "\n", failing, missing, nexec_false, unexec_false


class Ctx:
    pass


def make_ctx(widx, tier, opts):
    ctx = Ctx()
    ctx.tools = runner.Tools("plain")
    ctx.dir = os.path.join(common.scratch(), "w%d" % widx)
    os.makedirs(ctx.dir, exist_ok=True)
    EXT_NO_SHADOW_KNOWN[0] = any(f["id"] == "missing-shadow-not-reported-for-extern-users" for f in common.open_findings(PROP))
    if EXTERN_OK[0] is None:
        # the skip rule for extern users can only be exercised while the front end accepts a direct extern call
        # (open C05 finding extern-call-outside-unsafe-unchecked); if that is ever rejected the generator leaves it out
        pp = runner.write_src(ctx.dir, "extprobe.nano", "extern fn labs(x: int) -> int\nfn m(x: int) -> int {\n    return (labs x)\n}\nshadow m { assert (== (m -3) 3) }\nfn main() -> int {\n    (println (m -4))\n    return 0\n}\nshadow main { assert true }\n")
        exe = pp[:-5] + ".bin"
        rc, out, err, to = common.run([ctx.tools.nanoc, pp, "-o", exe], timeout=180, cwd=ctx.dir, env=ctx.tools.env)
        EXTERN_OK[0] = (rc == 0 and os.path.exists(exe))
    return ctx


def strategy(ctx):
    return case()


def judge(ctx, src, failing, missing, name="g.nano"):
    p = runner.write_src(ctx.dir, name, src)
    exe = p[:-5] + ".%d.bin" % os.getpid()
    if os.path.exists(exe):
        os.unlink(exe)
    rc, out, err, to = common.run([ctx.tools.nanoc, p, "-o", exe], timeout=180, cwd=ctx.dir, env=ctx.tools.env)
    if to:
        return "inconclusive", "nanoc time-out"
    made = os.path.exists(exe)
    text = (out + b"\n" + err).decode("utf-8", "replace")
    problems = []
    named = set(re.findall(r"Shadow test '([A-Za-z0-9_]+)' FAILED", text))
    if failing:
        if rc == 0:
            problems.append("exit status 0 although a shadow assertion is false")
        if made:
            problems.append("an executable was written although a shadow assertion is false")
        for f in failing:
            if f not in named:
                problems.append("failing test %s is not named in a \"Shadow test '...' FAILED\" line" % f)
        for f in named:
            if f not in failing and not f.startswith("chk_"):
                problems.append("test %s reported FAILED but all its executed assertions are true" % f)
    else:
        if rc != 0:
            problems.append("all executed assertions hold but nanoc exit %d: %s" % (rc, text[-300:]))
        elif not made:
            problems.append("exit 0 but no executable")
        else:
            r = common.run([exe], timeout=20, cwd=ctx.dir)
            if r[0] != 0 or r[3]:
                problems.append("the produced executable does not run (exit %s)" % r[0])
        if named:
            problems.append("tests reported FAILED although all assertions hold: %s" % sorted(named))
    for m in missing:
        if not re.search(r"'%s' is missing a shadow test" % m, text):
            problems.append("function %s has no shadow block but is not reported" % m)
    if made:
        os.unlink(exe)
    return ("differ", "; ".join(problems)) if problems else ("same", "")


def run_case(ctx, c, ev):
    n0 = EXT_NO_SHADOW_KNOWN[1]
    src, failing, missing, nexec_false, unexec_false = build(c)
    if EXT_NO_SHADOW_KNOWN[1] > n0:
        ev.exclude("extern_user_without_shadow_block", EXT_NO_SHADOW_KNOWN[1] - n0)
    v, detail = judge(ctx, src, failing, missing)
    nsh = sum(1 for f in c["funcs"] if f["shadow"])
    nested_false = any((not a["truth"]) and a["wrap"] != "plain" for f in c["funcs"] for a in f["asserts"])
    notfirst_false = any((not a["truth"]) and i > 0 for f in c["funcs"] for i, a in enumerate(f["asserts"]))
    ev.case(src, v == "same" and (nested_false or notfirst_false or nsh >= 4 or unexec_false))
    ev.cls("verdict_" + v)
    ev.cls("has_executed_false" if failing else "all_executed_true")
    if unexec_false:
        ev.cls("has_unexecuted_false_assertion")
    if missing:
        ev.cls("has_function_without_shadow")
    if EXTERN_OK[0] and any(f.get("ext") and f["shadow"] for f in c["funcs"]):
        ev.cls("has_skipped_extern_user_block")
    if len(failing) > 1:
        ev.cls("several_failing_tests")
    if v == "inconclusive":
        ev.inconclusive += 1
    if v == "same" and failing and len(ev.samples) < 2 and ev.evaluations % 11 == 2:
        ev.sample({"source": src[:2500], "failing_tests": failing, "missing_shadow": missing})
    if v == "differ":
        raise CaseFailure(detail, {})


def describe_failure(ctx, c, cf):
    src, failing, missing, _n, _u = build(c)
    return {"src": json.dumps({"source": src, "failing": failing, "missing": missing}), "detail": cf.detail, "payload": {}, "sigs": []}


def replay(path):
    ctx = make_ctx(0, "quick", {})
    ctx.tools.prewarm(ctx.dir)
    d = json.load(open(path))
    v, detail = judge(ctx, d["source"], d["failing"], d["missing"], "replay.nano")
    print("replay:", v, detail)
    return 1 if v == "differ" else 0


def main(tier):
    ev = Evidence(PROP, tier, "exploration", RULE)
    ctx = make_ctx(99, tier, {})
    ctx.tools.prewarm(ctx.dir)
    nviol = 0
    for f in common.open_findings(PROP):
        d = json.load(open(os.path.join(common.VERIF, f["replay"][PROP])))
        v, detail = judge(ctx, d["source"], d["failing"], d["missing"], "known.nano")
        if v == "differ":
            common.report_known(PROP, "%s [%s]" % (f["what"], f["id"]))
            ev.known.append(f["id"])
    for f in common.fixed_findings(PROP):
        rp = os.path.join(common.VERIF, f["replay"][PROP])
        d = json.load(open(rp))
        v, detail = judge(ctx, d["source"], d["failing"], d["missing"], "fixed.nano")
        ev.cls("fixed_regression_replayed")
        if v == "differ":
            print("C06: fixed finding %s is back: %s" % (f["id"], detail))
            common.report_violation(PROP, rp)
            nviol += 1
    total = 1600 if tier == "quick" else 12000
    results = harness.run_workers("pbt.c06_shadow_gate", tier, total)
    for r in results:
        ev.merge(r["evidence"])
        if r["error"]:
            print("C06: worker %d harness error (not a verdict):\n%s" % (r["widx"], r["error"]), file=sys.stderr)
            ev.cls("worker_errors")
        fl = r["failure"]
        if fl:
            d = json.loads(fl["src"])
            again = [judge(ctx, d["source"], d["failing"], d["missing"], "confirm.nano")[0] for _ in range(3)]
            if not all(a == "differ" for a in again):
                ev.inconclusive += 1
                continue
            p = common.save_replay(PROP, "gate_seed%d_w%d.json" % (common.seed(), r["widx"]), json.dumps(d, indent=1))
            print("C06: %s" % fl["detail"][:600])
            common.report_violation(PROP, p)
            nviol += 1
    ev.assumptions = ["the output path is fresh in every case: behaviour with a stale binary at the path is outside the statement",
                      "imported modules' shadow blocks are not exercised (probing showed nanoc does not run them at all)"]
    if ev.classes.get("worker_errors"):
        ev.write()
        sys.exit(2)
    common.finish(ev, nviol)
