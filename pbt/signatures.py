"""Signature predicates of open ledger entries over a (shrunk) generated program.
A failure found by the search is compared with the signatures of the open entries of the property;
only a failure matching none of them is reported as a VIOLATION."""
from .harness import prog_stmts, prog_exprs, walk_exprs, walk_stmts
from .progen import has_call


def continue_in_for(prog):
    return any(s[0] == "continue" and loop == "for" for s, loop in prog_stmts(prog))


def string_escapes(prog):
    return any(e and e[0] == "str" and isinstance(e[1], bytes) and b"\\" in e[1] for e in prog_exprs(prog))


def min_max(prog):
    return any(e and e[0] == "bi" and e[1] in ("min", "max") for e in prog_exprs(prog))


def effectful_logic(prog):
    return any(e and e[0] == "bin" and e[1] in ("and", "or") and has_call(e[3]) for e in prog_exprs(prog))


def effectful_args(prog):
    """Two sibling sub-expressions (operands of one operator other than and/or, arguments of one call, elements of
    one literal) both contain a call: the native backend leaves their order to the C compiler."""
    for e in prog_exprs(prog):
        if not e:
            continue
        args = None
        if e[0] in ("call", "bi", "arr"):
            args = e[2]
        elif e[0] == "callv":
            args = [e[1]] + list(e[2])
        elif e[0] == "bin" and e[1] not in ("and", "or"):
            args = [e[2], e[3]]
        elif e[0] == "mk":
            args = [x for _f, x in e[2]]
        elif e[0] == "umk":
            args = [x for _f, x in e[3]]
        elif e[0] == "tup":
            args = e[1]
        if args and sum(1 for a in args if has_call(a)) >= 2:
            return True
    return False


def tuple_pass(prog):
    for f in prog["funcs"]:
        ts = [t for _, t in f["params"]] + [f["ret"]]
        if any(isinstance(t, tuple) and t[0] == "tuple" for t in ts):
            return True
    return False


def _shadow_in(body, outer):
    seen = set(outer)
    for s in body:
        k = s[0]
        if k == "let":
            seen.add(s[1])
        subs = []
        if k == "if":
            subs = [s[2]] + ([s[3]] if s[3] else [])
        elif k == "while":
            subs = [s[2]]
        elif k == "for":
            subs = [s[4]]
        elif k == "match":
            subs = [b for (_v, _b, b) in s[3]]
        for sub in subs:
            for t in sub:
                if t[0] == "let" and t[1] in seen:
                    return True
            if _shadow_in(sub, seen):
                return True
    return False


def shadowing(prog):
    g = {n for (n, _t, _e) in prog["globals"]}
    for f in prog["funcs"]:
        if _shadow_in(f["body"], g | {p for p, _ in f["params"]}):
            return True
    return False


def self_compare(prog):
    from .progen import strip_style
    return any(e and e[0] == "bin" and e[1] in ("==", "!=", "<", "<=", ">", ">=") and strip_style(e[2]) == strip_style(e[3])
               for e in prog_exprs(prog))


def array_alias(prog):
    for s, _ in prog_stmts(prog):
        if s[0] == "let" and isinstance(s[2], tuple) and s[2][0] == "array" and s[3][0] == "var":
            return True
    return False


def print_enum(prog):
    return False


ALL = {k: v for k, v in globals().items() if callable(v) and not k.startswith("_") and k not in
       ("prog_stmts", "prog_exprs", "walk_exprs", "walk_stmts", "has_call")}


def matching(prog, names):
    return [n for n in names if n in ALL and ALL[n](prog)]


def array_struct_literal(prog):
    return any(e and e[0] == "arr" and isinstance(e[1], tuple) and e[1][0] == "struct" for e in prog_exprs(prog))


ALL["array_struct_literal"] = array_struct_literal


def _vars_in(e):
    for x in walk_exprs(e):
        if x and x[0] == "var":
            yield x[1]


def out_of_scope_var(prog):
    """Some variable reference is not lexically visible where it stands (another function's local/parameter,
    a block-local used after its block, use before declaration)."""
    glob = {n for (n, _t, _e) in prog["globals"]}
    fnames = {f["name"] for f in prog["funcs"]}

    def exprs_of(s):
        k = s[0]
        if k == "let":
            return [s[3]]
        if k == "set":
            return [("var", s[1]), s[2]]
        if k in ("if", "while"):
            return [s[1]]
        if k == "for":
            return [s[2], s[3]]
        if k in ("println", "print", "assert", "expr"):
            return [s[1]]
        if k == "return":
            return [s[1]] if s[1] is not None else []
        if k == "match":
            return [s[1]]
        return []

    def block(body, vis):
        vis = set(vis)
        for s in body:
            for e in exprs_of(s):
                for n in _vars_in(e):
                    if n not in vis and n not in glob and n not in fnames:
                        return True
            k = s[0]
            if k == "let":
                vis.add(s[1])
            elif k == "if":
                if block(s[2], vis) or (s[3] and block(s[3], vis)):
                    return True
            elif k == "while":
                if block(s[2], vis):
                    return True
            elif k == "for":
                if block(s[4], vis | {s[1]}):
                    return True
            elif k == "match":
                for (_v, b, b2) in s[3]:
                    if block(b2, vis | {b}):
                        return True
        return False

    for f in prog["funcs"]:
        if block(f["body"], {p for p, _ in f["params"]}):
            return True
    return False


ALL["out_of_scope_var"] = out_of_scope_var


def string_ordering_compare(prog):
    def is_str(e):
        return isinstance(e, tuple) and e and (e[0] == "str" or (e[0] == "bin" and e[1] == "+" and is_str(e[2])) or
                                               (e[0] == "bi" and e[1] in ("str_concat", "int_to_string", "str_substring")))
    return any(e and e[0] == "bin" and e[1] in ("<", "<=", ">", ">=") and (is_str(e[2]) or is_str(e[3])) for e in prog_exprs(prog))


def fn_let_from_non_function(prog):
    for s, _ in prog_stmts(prog):
        if s[0] == "let" and isinstance(s[2], tuple) and s[2][0] == "fn" and s[3][0] not in ("fnref", "var", "call", "callv"):
            return True
        # the same hole in the other direction: a function used as the value of a let of a non-function type
        if s[0] == "let" and not (isinstance(s[2], tuple) and s[2][0] == "fn") and isinstance(s[3], tuple) and s[3] and s[3][0] == "fnref":
            return True
    return False


def bool_ordering_compare(prog):
    """< <= > >= whose operand is evidently a bool (a comparison / logic result, a bool literal, not): the type checker
    accepts it (typechecker-operand-class-gaps), the generated C trips -Werror=parentheses / compares ints."""
    def is_bool(e):
        return isinstance(e, tuple) and e and (e[0] == "bool" or (e[0] == "un" and e[1] == "not") or
                                               (e[0] == "bin" and e[1] in ("<", "<=", ">", ">=", "==", "!=", "and", "or")) or
                                               (e[0] == "bi" and e[1] in ("str_contains", "str_equals")))
    return any(e and e[0] == "bin" and e[1] in ("<", "<=", ">", ">=") and (is_bool(e[2]) or is_bool(e[3])) for e in prog_exprs(prog))


def operand_class_gap(prog):
    """The shapes of typechecker-operand-class-gaps that end in a backend failure: ordering on bools, % with a float operand."""
    def is_float(e):
        return isinstance(e, tuple) and e and (e[0] == "float" or (e[0] == "bi" and e[1] in ("cast_float", "sqrt", "floor", "ceil", "round")) or
                                               (e[0] == "bin" and e[1] in ("+", "-", "*", "/") and (is_float(e[2]) or is_float(e[3]))))
    names = _name_types(prog)
    def floaty(e):
        return is_float(e) or (isinstance(e, tuple) and e and e[0] == "var" and names.get(e[1]) == "float")
    if any(e and e[0] == "bin" and e[1] == "%" and (floaty(e[2]) or floaty(e[3])) for e in prog_exprs(prog)):
        return True
    return bool_ordering_compare(prog)


ALL["bool_ordering_compare"] = bool_ordering_compare
ALL["string_ordering_compare"] = string_ordering_compare
ALL["fn_let_from_non_function"] = fn_let_from_non_function


_BI_PARAMS = {"str_length": ["string"], "str_concat": ["string", "string"], "str_contains": ["string", "string"],
              "str_equals": ["string", "string"], "str_substring": ["string", "int", "int"], "char_at": ["string", "int"],
              "int_to_string": ["int"], "abs": ["num"], "min": ["num", "num"], "max": ["num", "num"],
              "array_length": ["array"], "at": ["array", "int"], "array_push": ["array", None], "array_set": ["array", "int", None],
              "array_pop": ["array"], "array_slice": ["array", "int", "int"],
              "string_to_int": ["string"], "char_to_lower": ["int"], "char_to_upper": ["int"], "digit_value": ["int"],
              "is_digit": ["int"], "is_alpha": ["int"], "is_upper": ["int"], "is_lower": ["int"], "is_whitespace": ["int"],
              "string_from_char": ["int"], "cast_float": ["num"], "sqrt": ["float"], "floor": ["float"], "ceil": ["float"], "round": ["float"]}
_LIT_KIND = {"int": "int", "str": "string", "bool": "bool", "float": "float"}


def _name_types(prog):
    m = {}
    for (n, t, _e) in prog["globals"]:
        m[n] = t
    for f in prog["funcs"]:
        for p_, t in f["params"]:
            m.setdefault(p_, t)
        for s_, _ in walk_stmts(f["body"]):
            if s_[0] == "let":
                m.setdefault(s_[1], s_[2])
            elif s_[0] == "for":
                m.setdefault(s_[1], "int")
    return m


def _static_kind(e, names, funcs):
    """int / string / bool / float / array / other / None (unknown)"""
    if not isinstance(e, tuple) or not e:
        return None
    k = e[0]
    if k in _LIT_KIND:
        return _LIT_KIND[k]
    if k == "var":
        t = names.get(e[1])
        if t is None:
            return None
        if isinstance(t, str):
            return t
        return "array" if t[0] == "array" else "other"
    if k == "arr":
        return "array"
    if k in ("mk", "umk", "tup", "enum", "fnref"):
        return "other"
    if k == "call":
        t = funcs.get(e[1])
        if t is None:
            return None
        return t if isinstance(t, str) else ("array" if t[0] == "array" else "other")
    if k == "bin":
        if e[1] in ("==", "!=", "<", "<=", ">", ">=", "and", "or"):
            return "bool"
        return _static_kind(e[2], names, funcs)
    if k == "un":
        return "bool" if e[1] == "not" else _static_kind(e[2], names, funcs)
    if k == "bi":
        if e[1] in ("abs", "min", "max") and e[2]:
            return _static_kind(e[2][0], names, funcs)
        return {"str_length": "int", "array_length": "int", "char_at": "int", "int_to_string": "string",
                "str_concat": "string", "str_substring": "string", "str_contains": "bool", "str_equals": "bool",
                "string_to_int": "int", "char_to_lower": "int", "char_to_upper": "int", "digit_value": "int", "cast_int": "int",
                "cast_bool": "bool", "cast_float": "float", "cast_string": "string", "string_from_char": "string",
                "is_digit": "bool", "is_alpha": "bool", "is_upper": "bool", "is_lower": "bool", "is_whitespace": "bool",
                "sqrt": "float", "floor": "float", "ceil": "float", "round": "float", "map_length": "int", "map_has": "bool"}.get(e[1])
    return None


def builtin_arg_type_mismatch(prog):
    """A builtin is called with an argument whose (statically evident) type is wrong: builtin argument types are
    not enforced by the type checker."""
    names = _name_types(prog)
    funcs = {f["name"]: f["ret"] for f in prog["funcs"]}
    for e in prog_exprs(prog):
        if e and e[0] == "bi" and e[1] in _BI_PARAMS:
            for want, a in zip(_BI_PARAMS[e[1]], e[2]):
                if want is None:
                    continue
                k = _static_kind(a, names, funcs)
                if k is None:
                    continue
                if want == "num":
                    if k not in ("int", "float"):
                        return True
                elif want != k:
                    return True
        # element operand of array_push / array_set: its kind must be the array's element kind
        if e and e[0] == "bi" and e[1] in ("array_push", "array_set") and e[2] and isinstance(e[2][0], tuple) and e[2][0][0] == "var":
            at_ = names.get(e[2][0][1])
            if isinstance(at_, tuple) and at_[0] == "array":
                want = at_[1] if isinstance(at_[1], str) else "other"
                k = _static_kind(e[2][-1], names, funcs)
                if k is not None and k != want:
                    return True
    return False


ALL["builtin_arg_type_mismatch"] = builtin_arg_type_mismatch


def global_read_before_init(prog):
    """A global's initialiser calls a function that mentions a global defined at or after it (the value is read before
    its initialiser ran: void on the VM, zero natively)."""
    order = [n for (n, _t, _e) in prog["globals"]]
    bodies = {f["name"]: f["body"] for f in prog["funcs"]}

    def mentions(node, names):
        if isinstance(node, tuple):
            if len(node) >= 2 and node[0] in ("var", "set") and node[1] in names:
                return True
            return any(mentions(x, names) for x in node)
        if isinstance(node, list):
            return any(mentions(x, names) for x in node)
        return False

    def callees(node, acc):
        if isinstance(node, tuple):
            if len(node) >= 2 and node[0] == "call" and isinstance(node[1], str):
                acc.add(node[1])
            for x in node:
                callees(x, acc)
        elif isinstance(node, list):
            for x in node:
                callees(x, acc)
        return acc

    for i, (n, _t, e) in enumerate(prog["globals"]):
        later = set(order[i:])
        seen, todo = set(), list(callees(e, set()))
        while todo:
            fn = todo.pop()
            if fn in seen or fn not in bodies:
                continue
            seen.add(fn)
            if mentions(bodies[fn], later):
                return True
            todo += list(callees(bodies[fn], set()))
    return False


ALL["global_read_before_init"] = global_read_before_init


def array_push_used(prog):
    return any(e and e[0] == "bi" and e[1] in ("array_push", "array_set", "array_pop") for e in prog_exprs(prog))


ALL["array_push_used"] = array_push_used


ALL["operand_class_gap"] = operand_class_gap


def cast_of_string(prog):
    """cast_bool / cast_int / cast_float applied to a string: STDLIB.md declares the argument as `any`, the type checker
    accepts it, the native backend has no conversion for strings (C compilation failure)."""
    names = _name_types(prog)
    funcs = {f["name"]: f["ret"] for f in prog["funcs"]}
    return any(e and e[0] == "bi" and e[1] in ("cast_bool", "cast_int", "cast_float") and e[2] and
               _static_kind(e[2][0], names, funcs) in ("string", "array", "other") for e in prog_exprs(prog))


ALL["cast_of_string"] = cast_of_string
