"""Signature predicates of open ledger entries over a (shrunk) generated program.
A failure found by the search is compared with the signatures of the open entries of the property;
only a failure matching none of them is reported as a VIOLATION."""
from .harness import prog_stmts, prog_exprs, walk_exprs, walk_stmts
from .progen import has_call


def continue_in_for(prog):
    return any(s[0] == "continue" and loop == "for" for s, loop in prog_stmts(prog))


def string_escapes(prog):
    return any(e and e[0] == "str" and isinstance(e[1], bytes) and b"\\" in e[1] for e in prog_exprs(prog))


def min_max(prog):
    return any(e and e[0] == "bi" and e[1] in ("min", "max") for e in prog_exprs(prog))


def effectful_logic(prog):
    return any(e and e[0] == "bin" and e[1] in ("and", "or") and has_call(e[3]) for e in prog_exprs(prog))


def effectful_args(prog):
    """Two sibling sub-expressions (operands of one operator other than and/or, arguments of one call, elements of
    one literal) both contain a call: the native backend leaves their order to the C compiler."""
    for e in prog_exprs(prog):
        if not e:
            continue
        args = None
        if e[0] in ("call", "bi", "arr"):
            args = e[2]
        elif e[0] == "callv":
            args = [e[1]] + list(e[2])
        elif e[0] == "bin" and e[1] not in ("and", "or"):
            args = [e[2], e[3]]
        elif e[0] == "mk":
            args = [x for _f, x in e[2]]
        elif e[0] == "umk":
            args = [x for _f, x in e[3]]
        elif e[0] == "tup":
            args = e[1]
        if args and sum(1 for a in args if has_call(a)) >= 2:
            return True
    return False


def tuple_pass(prog):
    for f in prog["funcs"]:
        ts = [t for _, t in f["params"]] + [f["ret"]]
        if any(isinstance(t, tuple) and t[0] == "tuple" for t in ts):
            return True
    return False


def _shadow_in(body, outer):
    seen = set(outer)
    for s in body:
        k = s[0]
        if k == "let":
            seen.add(s[1])
        subs = []
        if k == "if":
            subs = [s[2]] + ([s[3]] if s[3] else [])
        elif k == "while":
            subs = [s[2]]
        elif k == "for":
            subs = [s[4]]
        elif k == "match":
            subs = [b for (_v, _b, b) in s[3]]
        for sub in subs:
            for t in sub:
                if t[0] == "let" and t[1] in seen:
                    return True
            if _shadow_in(sub, seen):
                return True
    return False


def shadowing(prog):
    g = {n for (n, _t, _e) in prog["globals"]}
    for f in prog["funcs"]:
        if _shadow_in(f["body"], g | {p for p, _ in f["params"]}):
            return True
    return False


def self_compare(prog):
    from .progen import strip_style
    return any(e and e[0] == "bin" and e[1] in ("==", "!=", "<", "<=", ">", ">=") and strip_style(e[2]) == strip_style(e[3])
               for e in prog_exprs(prog))


def array_alias(prog):
    for s, _ in prog_stmts(prog):
        if s[0] == "let" and isinstance(s[2], tuple) and s[2][0] == "array" and s[3][0] == "var":
            return True
    return False


def print_enum(prog):
    return False


ALL = {k: v for k, v in globals().items() if callable(v) and not k.startswith("_") and k not in
       ("prog_stmts", "prog_exprs", "walk_exprs", "walk_stmts", "has_call")}


def matching(prog, names):
    return [n for n in names if n in ALL and ALL[n](prog)]


def array_struct_literal(prog):
    return any(e and e[0] == "arr" and isinstance(e[1], tuple) and e[1][0] == "struct" for e in prog_exprs(prog))


ALL["array_struct_literal"] = array_struct_literal
