"""C03 - compile-time shadow-test evaluation agrees with the compiled program.

Generated: a progen program P with functions f1..fn; for every function with scalar parameters a list of literal
argument tuples.  Two renderings of the same functions:
  P_test - each `shadow fi` body is a list of `(println (fi a..))` lines and `assert (== (fi a..) V)` lines
  P_run  - shadow bodies are `assert true` and main executes exactly the same println lines in the same order
Oracle (differential): the text `nanoc P_test --verbose` prints between "Testing fi... " and "PASSED|FAILED" equals the
corresponding slice of ./P_run's output; a test is PASSED iff all its assertions are true in the compiled semantics
(expected values V come from the reference evaluator, ~85 % true and ~15 % false by construction); a program whose
assertions are all true is not refused.
"""
import json
import os
import re
import sys

from hypothesis import strategies as st

from . import common, harness, progen, refeval, runner, signatures
from .common import Evidence
from .harness import CaseFailure

PROP = "C03"
RULE = ("progen program; per eligible function 1-3 literal argument tuples; shadow body prints/asserts call results. "
        "non-trivial = some tested function reads a global, loops, recurses, calls another function or handles an "
        "array/struct/union value, and >= 2 calls are made in shadow blocks; distinct by hash of P_test")


class Ctx:
    pass


def make_ctx(widx, tier, opts):
    ctx = Ctx()
    ctx.tools = runner.Tools("plain")
    ctx.dir = os.path.join(common.scratch(), "w%d" % widx)
    os.makedirs(ctx.dir, exist_ok=True)
    F, ctx.gated = harness.features_for(PROP)
    # global_init_call: the output of a global initialiser belongs to program start, not to any shadow test (the comparison is per test)
    ctx.features = F - {"array_pass", "struct_pass", "fnvalues", "long_strings", "global_init_call"}
    ctx.size = 3
    return ctx


def lit_for(draw, t):
    if t == "int":
        return ("int", draw(st.sampled_from([0, 1, 2, 3, -1, 7, 42, 255, -100, 2 ** 31, 9223372036854775807, -9223372036854775807])))
    if t == "bool":
        return ("bool", draw(st.booleans()))
    if t == "string":
        return ("str", draw(st.sampled_from([b"", b"a", b"abc", b"hello world", b"x_y-z", b"0123456789"])))
    if t == "float":
        return ("float", draw(st.sampled_from([0.0, 1.5, 2.25, 10.0])))
    raise ValueError(t)


@st.composite
def case(draw, features, size):
    prog = draw(progen.programs(features=features, size=size))
    calls = {}
    for f in prog["funcs"]:
        if f["name"] == "main":
            continue
        if all(isinstance(pt, str) for _, pt in f["params"]) and f["ret"] in ("int", "bool", "string"):
            lst = []
            for _ in range(draw(st.integers(1, 3))):
                args = [("int", draw(st.integers(0, 3))) if pn == "fuel" else lit_for(draw, pt) for pn, pt in f["params"]]
                lst.append({"args": args, "assert": draw(st.integers(0, 2)) > 0, "falsify": draw(st.integers(0, 6)) == 0})
            calls[f["name"]] = lst
    return {"prog": prog, "calls": calls}


def perturb(v):
    if isinstance(v, bool):
        return ("bool", not v)
    if isinstance(v, int):
        return ("int", refeval.wrap(v + 1))
    return ("str", v + b"~")


def lit_of(v):
    if isinstance(v, bool):
        return ("bool", v)
    if isinstance(v, int):
        return ("int", v)
    return ("str", v)


def render(c):
    """Returns (P_test, P_run, plan) or None if the reference evaluator cannot evaluate some call."""
    prog = c["prog"]
    shadows = {}
    main_body = []
    plan = []
    mirror_n = [0]
    for f in prog["funcs"]:
        if f["name"] == "main":
            continue
        lst = c["calls"].get(f["name"])
        if not lst:
            continue
        body = []
        expect_pass = True
        for item in lst:
            call = ("call", f["name"], item["args"])
            ev = refeval.Evaluator(prog, budget=200000)
            try:
                fr = refeval.Frame()
                for (n, _t, e) in prog["globals"]:
                    ev.globals[n] = ev.ev(fr, e)
                val = ev.call(f["name"], [ev.ev(fr, a) for a in item["args"]])
            except (refeval.Undefined, refeval.Budget, refeval.AssertFail, RecursionError):
                return None
            if isinstance(val, bytes) and (b"\\" in val or b'"' in val or not val.isascii()):
                item = dict(item, **{"assert": False})
            body.append(("println", call))
            main_body.append(("println", call))
            if item["assert"]:
                want = perturb(val) if item["falsify"] else lit_of(val)
                if item["falsify"]:
                    expect_pass = False
                body.append(("assert", ("bin", "==", call, want, "p")))
                # the compiled program evaluates the same condition (its callee may print a trace), without asserting
                mirror_n[0] += 1
                main_body.append(("let", "c03_m%d" % mirror_n[0], "bool", ("bin", "==", call, want, "p"), False))
        shadows[f["name"]] = body
        plan.append((f["name"], expect_pass, len(lst)))
    main_body.append(("return", ("int", 0)))
    funcs_run = [f for f in prog["funcs"] if f["name"] != "main"] + [{"name": "main", "params": [], "ret": "int", "body": main_body, "recursive": False}]
    p_run = dict(prog, funcs=funcs_run)
    p_test = dict(prog, funcs=funcs_run)
    return progen.print_program(p_test, shadows=shadows), progen.print_program(p_run), plan


TEST_RE = re.compile(rb"^Testing ([A-Za-z_0-9]+)\.\.\. ", re.M)


def parse_verbose(out):
    """name -> (output bytes, 'PASSED'|'FAILED'|None) in order."""
    res = []
    ms = list(TEST_RE.finditer(out))
    for i, m in enumerate(ms):
        end = ms[i + 1].start() if i + 1 < len(ms) else len(out)
        chunk = out[m.end():end]
        status = None
        body = chunk
        for st_ in (b"PASSED", b"FAILED"):
            k = chunk.rfind(st_ + b"\n")
            if k >= 0 and (status is None or k > len(body)):
                pass
        # the status word is the last PASSED/FAILED token that ends a line in this chunk
        m2 = list(re.finditer(rb"(PASSED|FAILED)\n", chunk))
        if m2:
            status = m2[0].group(1).decode()
            # output is everything before the first status marker that is followed only by report lines
            body = chunk[:m2[0].start()]
        res.append((m.group(1).decode(), body, status))
    return res


def check(ctx, p_test, p_run, plan, name="c"):
    pt = runner.write_src(ctx.dir, name + "_test.nano", p_test)
    pr = runner.write_src(ctx.dir, name + "_run.nano", p_run)
    exe_t = pt[:-5] + ".bin"
    if os.path.exists(exe_t):
        os.unlink(exe_t)
    rc, out, err, to = common.run([ctx.tools.nanoc, pt, "-o", exe_t, "--verbose"], timeout=120, cwd=ctx.dir, env=ctx.tools.env)
    if to:
        return "inconclusive", "nanoc time-out"
    made = os.path.exists(exe_t)
    if made:
        os.unlink(exe_t)
    nat = ctx.tools.run_native(pr, ctx.dir)
    if nat.cls == "inconclusive":
        return "inconclusive", "native time-out"
    if nat.cls != "normal":
        return "skipped", "P_run did not run normally natively (%s): C04 matter" % nat.cls
    if b"Running shadow tests" not in out:
        return "skipped", "front end refused P_test before shadow tests"
    tests = {n: (b, s) for (n, b, s) in parse_verbose(out)}
    expected_all = all(ep for (_n, ep, _k) in plan)
    # slice the native output per function: re-run is not needed, the order is the plan order; cut by evaluating per function
    # (native output is the concatenation; compare the concatenation of the evaluator's chunks in plan order)
    concat = b"".join(tests.get(n, (b"<missing>", None))[0] for (n, _ep, _k) in plan)
    if concat != nat.out:
        # find first differing function for the report
        return "differ", "shadow-time output differs from the compiled program's output: evaluator %r... vs native %r..." % (first_diff(concat, nat.out))
    for (n, ep, _k) in plan:
        s = tests.get(n, (b"", None))[1]
        if s is None:
            return "differ", "no PASSED/FAILED verdict for %s" % n
        if ep and s != "PASSED":
            return "differ", "assertions of %s are all true in the compiled semantics but the shadow test FAILED" % n
        if not ep and s != "FAILED":
            return "differ", "a false assertion of %s PASSED at compile time" % n
    if expected_all and (rc != 0 or not made):
        return "differ", "all assertions hold but nanoc refused the program (exit %d)" % rc
    if not expected_all and (rc == 0 or made):
        return "differ", "a shadow assertion is false but nanoc exit %d / binary written=%s" % (rc, made)
    return "same", ""


def first_diff(a, b):
    i = 0
    while i < min(len(a), len(b)) and a[i] == b[i]:
        i += 1
    lo = max(0, i - 30)
    return a[lo:i + 40], b[lo:i + 40]


def strategy(ctx):
    return case(ctx.features, ctx.size)


def run_case(ctx, c, ev):
    r = render(c)
    for k, v in c["prog"]["excluded"].items():
        ev.exclude(k, v)
    if r is None:
        ev.cls("discarded_ref_undefined_or_budget")
        return
    p_test, p_run, plan = r
    if not plan:
        ev.cls("no_eligible_function")
        return
    v, detail = check(ctx, p_test, p_run, plan)
    feats = c["prog"]["features"]
    ncalls = sum(k for (_n, _ep, k) in plan)
    nontrivial = v == "same" and ncalls >= 2 and any(feats.get(k) for k in ("global", "while", "for", "recursion", "call", "array_literal", "struct_literal", "union_construct"))
    ev.case(p_test, nontrivial)
    ev.cls("verdict_" + v)
    if any(not ep for (_n, ep, _k) in plan):
        ev.cls("has_false_assertion")
    if v == "inconclusive":
        ev.inconclusive += 1
    if nontrivial and len(ev.samples) < 2 and ev.evaluations % 7 == 3:
        ev.sample({"P_test": p_test[:2500]})
    if v == "differ":
        raise CaseFailure(detail, {})


def describe_failure(ctx, c, cf):
    p_test, p_run, plan = render(c)
    open_sigs = [f.get("signature") for f in common.open_findings(PROP) if f.get("signature")]
    return {"src": json.dumps({"P_test": p_test, "P_run": p_run, "plan": plan}), "detail": cf.detail, "payload": {},
            "sigs": signatures.matching(c["prog"], open_sigs)}


def replay(path):
    ctx = make_ctx(0, "quick", {})
    ctx.tools.prewarm(ctx.dir)
    d = json.load(open(path))
    v, detail = check(ctx, d["P_test"], d["P_run"], [tuple(x) for x in d["plan"]], "replay")
    print("replay:", v, detail)
    return 1 if v == "differ" else 0


def main(tier):
    ev = Evidence(PROP, tier, "exploration", RULE)
    ctx = make_ctx(99, tier, {})
    ctx.tools.prewarm(ctx.dir)
    nviol = 0
    for f in common.open_findings(PROP):
        d = json.load(open(os.path.join(common.VERIF, f["replay"][PROP])))
        v, detail = check(ctx, d["P_test"], d["P_run"], [tuple(x) for x in d["plan"]], "known")
        if v == "differ":
            common.report_known(PROP, "%s [%s]" % (f["what"], f["id"]))
            ev.known.append(f["id"])
        else:
            print("note: known finding %s no longer reproduces (%s)" % (f["id"], v))
    for f in common.fixed_findings(PROP):
        rp = os.path.join(common.VERIF, f["replay"][PROP])
        d = json.load(open(rp))
        v, detail = check(ctx, d["P_test"], d["P_run"], [tuple(x) for x in d["plan"]], "fixed")
        ev.cls("fixed_regression_replayed")
        if v == "differ":
            print("C03: fixed finding %s is back: %s" % (f["id"], detail))
            common.report_violation(PROP, rp)
            nviol += 1
    total = 1200 if tier == "quick" else 12000
    results = harness.run_workers("pbt.c03_shadow_eval", tier, total)
    for r in results:
        ev.merge(r["evidence"])
        if r["error"]:
            print("C03: worker %d harness error (not a verdict):\n%s" % (r["widx"], r["error"]), file=sys.stderr)
            ev.cls("worker_errors")
        fl = r["failure"]
        if fl:
            d = json.loads(fl["src"])
            again = [check(ctx, d["P_test"], d["P_run"], [tuple(x) for x in d["plan"]], "confirm")[0] for _ in range(3)]
            if not all(a == "differ" for a in again):
                ev.inconclusive += 1
                continue
            if fl["sigs"]:
                ev.cls("failure_matching_known_signature")
                print("note: failure matches open finding signature(s) %s" % fl["sigs"])
                continue
            p = common.save_replay(PROP, "evaldiff_seed%d_w%d.json" % (common.seed(), r["widx"]), json.dumps(d, indent=1))
            print("C03: %s" % fl["detail"][:700])
            common.report_violation(PROP, p)
            nviol += 1
    ev.extra["gated_features"] = ctx.gated
    if ev.classes.get("worker_errors"):
        ev.write()
        sys.exit(2)
    common.finish(ev, nviol)
