"""C02 - every execution engine implements the defined semantics.

Oracle: reference model (pbt/refeval.py, transcribed from docs/SPECIFICATION.md sections 4-8): for each engine
e in {native, NanoVM}: stdout(e, p) == Ref(p).stdout and exit(e, p) == Ref(p).exit.
Parts:
  (a) progen programs (Hypothesis), both engines judged separately against the reference
  (b) exhaustive operator table: 13 binary + 2 unary operators x every ordered pair of boundary operands, prefix and
      infix spelling, run-time operands (through function parameters, so nothing is folded at compile time)
  (c) evaluation-order probes: trees of operators / calls / literals / cond / and-or whose leaves print their own id
  (d) scope probes: shadowing towers and global/parameter/local name reuse (the section 8.1 / 8.2 schemas)
"""
import itertools
import json
import os
import sys

from hypothesis import strategies as st

from . import common, harness, progen, refeval, runner, signatures
from .common import Evidence
from .harness import CaseFailure

PROP = "C02"
RULE = ("(a) progen programs, (c) generated evaluation-order probes, (d) scope probes: each engine's stdout+exit compared "
        "with the reference evaluator; non-trivial = an effectful sub-expression inside an operand/argument, or a "
        "boundary operand, or shadowing depth >= 2, or a wrap-around / short-circuit actually executed in the reference "
        "run; distinct by source hash. (b) operator table: every ordered pair from the boundary set for every operator "
        "in both spellings; each row is distinct and non-trivial by construction")

INT_BOUND = [-(2 ** 63), -(2 ** 63) + 1, -(2 ** 32) - 1, -(2 ** 31), -3, -2, -1, 0, 1, 2, 3, 2 ** 31 - 1, 2 ** 31, 2 ** 32,
             2 ** 32 + 1, 2 ** 63 - 2, 2 ** 63 - 1]
STR_BOUND = [b"", b"a", b"ab", b"b", b"abc" * 100]


class Ctx:
    pass


def make_ctx(widx, tier, opts):
    ctx = Ctx()
    ctx.tools = runner.Tools("plain")
    ctx.dir = os.path.join(common.scratch(), "w%d" % widx)
    os.makedirs(ctx.dir, exist_ok=True)
    F, gated = harness.features_for(PROP)
    # the right-to-left finding concerns the native backend only: keep the shape, judge the VM alone on such programs
    ctx.native_only_gates = [g for g in gated if g == "effectful_args"]
    ctx.features = F | set(ctx.native_only_gates)
    ctx.gated = gated
    ctx.size = 3
    ctx.widx = widx
    ctx.mode = opts.get("mode", "progen")
    return ctx


# ----------------------------------------------------------------------------- (c) evaluation order probes
def tick_funcs():
    """tick(k): prints k, returns k; tb(k, v): prints k, returns v; g2/g3: pure combiners; ts(k): prints k returns string."""
    P = lambda n: ("var", n)
    return [
        {"name": "tick", "params": [("k", "int")], "ret": "int", "recursive": False,
         "body": [("println", P("k")), ("return", P("k"))]},
        {"name": "tb", "params": [("k", "int"), ("v", "bool")], "ret": "bool", "recursive": False,
         "body": [("println", P("k")), ("return", P("v"))]},
        {"name": "ts", "params": [("k", "int")], "ret": "string", "recursive": False,
         "body": [("println", P("k")), ("return", ("bi", "int_to_string", [P("k")]))]},
        {"name": "g2", "params": [("a", "int"), ("b", "int")], "ret": "int", "recursive": False,
         "body": [("return", ("bin", "-", P("a"), P("b"), "p"))]},
        {"name": "g3", "params": [("a", "int"), ("b", "int"), ("c", "int")], "ret": "int", "recursive": False,
         "body": [("return", ("bin", "+", ("bin", "*", P("a"), ("int", 3), "p"), ("bin", "-", P("b"), P("c"), "p"), "p"))]},
    ]


@st.composite
def order_probe(draw, allow_call_args=True):
    ctr = [0]

    def leaf_int():
        ctr[0] += 1
        return ("call", "tick", [("int", ctr[0])])

    def leaf_bool():
        ctr[0] += 1
        return ("call", "tb", [("int", ctr[0]), ("bool", draw(st.booleans()))])

    def leaf_str():
        ctr[0] += 1
        return ("call", "ts", [("int", ctr[0])])

    def style():
        return "i" if draw(st.booleans()) else "p"

    def gi(d):
        k = draw(st.integers(0, 9)) if d > 0 else 0
        if k <= 1:
            return leaf_int()
        if k <= 4:
            return ("bin", draw(st.sampled_from(["+", "-", "*"])), gi(d - 1), gi(d - 1), style())
        if k == 5 and allow_call_args:
            return ("call", "g2", [gi(d - 1), gi(d - 1)])
        if k == 6 and allow_call_args:
            return ("call", "g3", [gi(d - 1), gi(d - 1), gi(d - 1)])
        if k == 7:
            return ("cond", [(gb(d - 1), gi(d - 1))], gi(d - 1))
        if k == 8:
            return ("un", "-", gi(d - 1), "p")
        if k == 9:
            return ("bi", "abs", [gi(d - 1)])
        return leaf_int()

    def gb(d):
        k = draw(st.integers(0, 6)) if d > 0 else 0
        if k <= 1:
            return leaf_bool()
        if k <= 3:
            return ("bin", draw(st.sampled_from(["and", "or"])), gb(d - 1), gb(d - 1), style())
        if k == 4:
            return ("bin", draw(st.sampled_from(["<", "==", ">="])), gi(d - 1), gi(d - 1), style())
        if k == 5:
            return ("un", "not", gb(d - 1), "p")
        return leaf_bool()

    stmts = []
    n = draw(st.integers(1, 4))
    for i in range(n):
        k = draw(st.integers(0, 6))
        d = draw(st.integers(1, 4))
        if k <= 1:
            stmts.append(("println", gi(d)))
        elif k == 2:
            stmts.append(("println", gb(d)))
        elif k == 3:
            stmts.append(("let", "s%d" % i, ("struct", "T_P"), ("mk", "T_P", [("x", gi(d - 1)), ("y", gi(d - 1)), ("z", gi(d - 1))]), False))
            stmts.append(("println", ("bin", "+", ("field", ("var", "s%d" % i), "x"),
                                      ("bin", "*", ("field", ("var", "s%d" % i), "y"), ("field", ("var", "s%d" % i), "z"), "p"), "p")))
        elif k == 4:
            stmts.append(("let", "t%d" % i, ("tuple", ("int", "int")), ("tup", [gi(d - 1), gi(d - 1)]), False))
            stmts.append(("println", ("bin", "-", ("tidx", ("var", "t%d" % i), 0), ("tidx", ("var", "t%d" % i), 1), "p")))
        elif k == 5 and allow_call_args:
            stmts.append(("let", "a%d" % i, ("array", "int"), ("arr", "int", [gi(d - 1), gi(d - 1), gi(d - 1)]), False))
            stmts.append(("println", ("bi", "at", [("var", "a%d" % i), ("int", 1)])))
        elif k == 6:
            stmts.append(("if", gb(d), [("println", gi(1))], [("println", gi(1))]))
        else:
            stmts.append(("println", gi(d)))
    stmts.append(("return", ("int", draw(st.integers(0, 255)))))
    main = {"name": "main", "params": [], "ret": "int", "body": stmts, "recursive": False}
    return {"structs": [("T_P", [("x", "int"), ("y", "int"), ("z", "int")])], "enums": [], "unions": [], "globals": [],
            "funcs": tick_funcs() + [main], "features": {"order_probe": 1}, "excluded": {}}


# ----------------------------------------------------------------------------- (d) scope probes
@st.composite
def scope_probe(draw):
    """Shadowing towers (same type at every level), global vs parameter vs local of one name, callee reading a global
    that the caller shadows with a local (section 8.1)."""
    depth = draw(st.integers(1, 6))
    gval = draw(st.integers(0, 50))

    def tower(level, maxd):
        body = [("let", "x", "int", ("int", 100 + level), False), ("println", ("var", "x")),
                ("println", ("call", "rg", []))]
        if level < maxd:
            kind = draw(st.sampled_from(["if", "while", "for"]))
            inner = tower(level + 1, maxd)
            if kind == "if":
                body.append(("if", ("bool", True), inner, None))
            elif kind == "while":
                w = "w%d" % level
                body.append(("let", w, "int", ("int", 0), True))
                body.append(("while", ("bin", "<", ("var", w), ("int", draw(st.integers(1, 2))), "p"),
                             [("set", w, ("bin", "+", ("var", w), ("int", 1), "p"))] + inner))
            else:
                body.append(("for", "i%d" % level, ("int", 0), ("int", draw(st.integers(1, 2))), inner))
        body.append(("println", ("var", "x")))
        return body

    funcs = [
        {"name": "rg", "params": [], "ret": "int", "recursive": False, "body": [("return", ("var", "gx"))]},
        {"name": "par", "params": [("gx", "int")], "ret": "int", "recursive": False,
         "body": [("println", ("var", "gx")), ("return", ("bin", "+", ("var", "gx"), ("call", "rg", []), "p"))]},
        {"name": "loc", "params": [], "ret": "int", "recursive": False,
         "body": [("let", "gx", "int", ("int", 777), False), ("println", ("var", "gx")), ("return", ("call", "rg", []))]},
    ]
    body = [("println", ("call", "rg", [])), ("println", ("call", "par", [("int", draw(st.integers(0, 9)))])),
            ("println", ("call", "loc", []))]
    body += [("if", ("bool", True), tower(1, depth), None)]
    body.append(("return", ("int", 0)))
    funcs.append({"name": "main", "params": [], "ret": "int", "body": body, "recursive": False})
    return {"structs": [], "enums": [], "unions": [], "globals": [("gx", "int", ("int", gval))], "funcs": funcs,
            "features": {"scope_probe": 1, "tower_depth_%d" % depth: 1}, "excluded": {}}


def strategy(ctx):
    if ctx.mode == "order":
        return order_probe()
    if ctx.mode == "order_nc":
        return order_probe(allow_call_args=False)
    if ctx.mode == "scope":
        return scope_probe()
    if ctx.mode == "notation":
        from . import c07_notation
        return c07_notation.random_case({"postfix_on_right_operand": True}, 6)
    return progen.programs(features=ctx.features, size=ctx.size)


# ----------------------------------------------------------------------------- judging
def judge(ctx, prog, src, ref, name="p.nano", engines=("native", "vm")):
    """Returns list of (engine, problem, Result) for engines that disagree with the reference."""
    p = runner.write_src(ctx.dir, name, src)
    bad = []
    res = {}
    for e in engines:
        r = ctx.tools.run_native(p, ctx.dir) if e == "native" else ctx.tools.run_vm(p, ctx.dir)
        res[e] = r
        if r.cls == "inconclusive":
            bad.append((e, "inconclusive", r))
        elif r.cls in ("rejected", "internal_failure"):
            # refusing or getting stuck on an accepted program is C04/C05 territory; output before it is still judged
            if r.stage == "run" and not ref.out.startswith(r.out):
                bad.append((e, "output before an internal failure differs from the reference", r))
            else:
                bad.append((e, "stuck", r))
        elif r.out != ref.out:
            bad.append((e, "stdout differs from the reference", r))
        elif r.cls == "normal" and r.rc != ref.exit:
            bad.append((e, "exit status %s, reference %s" % (r.rc, ref.exit), r))
        elif r.cls != "normal":
            bad.append((e, "run ended in a fault, reference ends normally", r))
    return bad, res


def engines_for(ctx, prog):
    if ctx.native_only_gates and signatures.effectful_args(prog):
        return ("vm",)
    return ("native", "vm")


def run_case(ctx, prog, ev):
    ref = refeval.run(prog)
    src = progen.print_program(prog)
    for k, v in prog["excluded"].items():
        ev.exclude(k, v)
    if ref.kind != "normal":
        ev.cls("discarded_ref_" + ref.kind)
        ev.case(src, False)
        return
    engines = engines_for(ctx, prog)
    if len(engines) == 1:
        ev.exclude("native_engine_skipped(effectful_args)")
    bad, res = judge(ctx, prog, src, ref, engines=engines)
    st_ = ref.stats
    nontrivial = (prog["features"].get("effectful_args", 0) > 0 or prog["features"].get("order_probe", 0) > 0 or
                  prog["features"].get("random", 0) > 0 or
                  st_["wraps"] > 0 or st_["short_circuits"] > 0 or st_["max_shadow_depth"] >= 2 or
                  prog["features"].get("int_boundary_literal", 0) > 0)
    real = [b for b in bad if b[1] not in ("inconclusive", "stuck")]
    ev.case(src, nontrivial and not bad)
    ev.cls("mode_" + ctx.mode)
    for e in engines:
        ev.cls("judged_" + e)
    for (e, why, r) in bad:
        if why == "inconclusive":
            ev.inconclusive += 1
        elif why == "stuck":
            ev.cls("stuck_" + e)
    for k in ("wraps", "short_circuits"):
        if st_[k]:
            ev.cls("ref_run_with_" + k)
    if st_["max_shadow_depth"] >= 2:
        ev.cls("ref_run_shadow_depth_ge2")
    if not bad and nontrivial and len(ev.samples) < 2 and ev.evaluations % 7 == 2:
        ev.sample({"mode": ctx.mode, "source": src[:2500], "expected_stdout": ref.out[:300].decode("utf-8", "replace"),
                   "expected_exit": ref.exit})
    if real:
        e, why, r = real[0]
        raise CaseFailure("%s: %s" % (e, why), {"engine": e, "result": r.brief(),
                                                 "expected_out": ref.out[-400:].decode("utf-8", "replace"), "expected_exit": ref.exit})


def describe_failure(ctx, prog, cf):
    src = progen.print_program(prog)
    ref = refeval.run(prog)
    open_sigs = [f.get("signature") for f in common.open_findings(PROP) if f.get("signature")]
    sigs = signatures.matching(prog, open_sigs)
    if cf.payload.get("engine") == "vm":
        sigs = [s for s in sigs if s != "effectful_args"]
    return {"src": src, "detail": cf.detail, "payload": cf.payload, "sigs": sigs,
            "expect": {"out": ref.out.decode("latin-1"), "exit": ref.exit}, "engine": cf.payload.get("engine")}


def recheck(ctx, src, expect, engine, times=3):
    """Re-run a source against a stored expectation without the library."""
    p = runner.write_src(ctx.dir, "confirm.nano", src)
    n = 0
    last = None
    for _ in range(times):
        r = ctx.tools.run_native(p, ctx.dir) if engine == "native" else ctx.tools.run_vm(p, ctx.dir)
        last = r
        if r.cls in ("normal", "documented_fault") and (r.out != expect["out"].encode("latin-1") or
                                                         (r.cls == "normal" and r.rc != expect["exit"]) or r.cls != "normal"):
            n += 1
        elif r.cls == "internal_failure" and r.stage == "run" and not expect["out"].encode("latin-1").startswith(r.out):
            n += 1
    return n == times, last


HEADER = "# C02 replay: expected output/exit (reference model) are in the JSON comment on the next line\n"


def save_case(name, src, expect, engine):
    body = HEADER + "# " + json.dumps({"expect": expect, "engine": engine}) + "\n" + src
    return common.save_replay(PROP, name, body)


def load_case(path):
    lines = open(path, encoding="utf-8", newline="").read().split("\n")
    meta = None
    for ln in lines[:4]:
        if ln.startswith("# {"):
            meta = json.loads(ln[2:])
    src = "\n".join(l for l in lines if not l.startswith("# "))
    return src, meta


def replay(path):
    ctx = make_ctx(0, "quick", {})
    ctx.tools.prewarm(ctx.dir)
    src, meta = load_case(path)
    if meta is None:
        print("replay file has no expectation header")
        return 2
    rc = 0
    for e in ([meta["engine"]] if meta.get("engine") else ["native", "vm"]):
        bad, last = recheck(ctx, src, meta["expect"], e, 1)
        print("engine %s: %s" % (e, "DISAGREES with the reference" if bad else "agrees"), last)
        rc |= 1 if bad else 0
    return rc


# ----------------------------------------------------------------------------- (b) operator table
def table_programs():
    """Yields (name, prog, rows) - one program per operator and spelling; operands reach the operator at run time."""
    P = lambda n: ("var", n)
    out = []
    for style in ("p", "i"):
        for op in ["+", "-", "*", "/", "%", "==", "!=", "<", "<=", ">", ">="]:
            ret = "int" if op in "+-*/%" else "bool"
            f = {"name": "op", "params": [("a", "int"), ("b", "int")], "ret": ret, "recursive": False,
                 "body": [("return", ("bin", op, P("a"), P("b"), style))]}
            body = []
            rows = []
            for a, b in itertools.product(INT_BOUND, INT_BOUND):
                if op in "/%" and (b == 0 or (a == -(2 ** 63) and b == -1)):
                    continue
                body.append(("println", ("call", "op", [("int", a), ("int", b)])))
                rows.append((op, a, b))
            body.append(("return", ("int", 0)))
            out.append(("int_%s_%s" % ({"p": "prefix", "i": "infix"}[style], opname(op)), mkprog([f], body), rows))
        for op in ["and", "or", "==", "!="]:
            f = {"name": "op", "params": [("a", "bool"), ("b", "bool")], "ret": "bool", "recursive": False,
                 "body": [("return", ("bin", op, P("a"), P("b"), style))]}
            body, rows = [], []
            for a, b in itertools.product([False, True], [False, True]):
                body.append(("println", ("call", "op", [("bool", a), ("bool", b)])))
                rows.append((op, a, b))
            body.append(("return", ("int", 0)))
            out.append(("bool_%s_%s" % ({"p": "prefix", "i": "infix"}[style], opname(op)), mkprog([f], body), rows))
        for op in ["+", "==", "!="]:
            ret = "string" if op == "+" else "bool"
            f = {"name": "op", "params": [("a", "string"), ("b", "string")], "ret": ret, "recursive": False,
                 "body": [("return", ("bin", op, P("a"), P("b"), style))]}
            body, rows = [], []
            for a, b in itertools.product(STR_BOUND, STR_BOUND):
                body.append(("println", ("call", "op", [("str", a), ("str", b)])))
                rows.append((op, a, b))
            body.append(("return", ("int", 0)))
            out.append(("str_%s_%s" % ({"p": "prefix", "i": "infix"}[style], opname(op)), mkprog([f], body), rows))
    # unary
    f = {"name": "op", "params": [("a", "int")], "ret": "int", "recursive": False, "body": [("return", ("un", "-", P("a"), "p"))]}
    body = [("println", ("call", "op", [("int", a)])) for a in INT_BOUND] + [("return", ("int", 0))]
    out.append(("int_neg", mkprog([f], body), [("neg", a, None) for a in INT_BOUND]))
    f = {"name": "op", "params": [("a", "bool")], "ret": "bool", "recursive": False, "body": [("return", ("un", "not", P("a"), "p"))]}
    body = [("println", ("call", "op", [("bool", a)])) for a in (False, True)] + [("return", ("int", 0))]
    out.append(("bool_not", mkprog([f], body), [("not", a, None) for a in (False, True)]))
    return out


def opname(op):
    return {"+": "add", "-": "sub", "*": "mul", "/": "div", "%": "mod", "==": "eq", "!=": "ne", "<": "lt", "<=": "le",
            ">": "gt", ">=": "ge", "and": "and", "or": "or"}[op]


def mkprog(funcs, main_body):
    main = {"name": "main", "params": [], "ret": "int", "body": main_body, "recursive": False}
    return {"structs": [], "enums": [], "unions": [], "globals": [], "funcs": funcs + [main], "features": {}, "excluded": {}}


def table_job(args):
    name, idx = args
    ctx = make_ctx(200 + idx, "quick", {})
    progs = {n: (p, rows) for (n, p, rows) in table_programs()}
    prog, rows = progs[name]
    ref = refeval.run(prog, budget=10 ** 7)
    src = progen.print_program(prog)
    if ref.kind != "normal":
        return {"name": name, "error": "reference evaluation of the table failed: %r" % ref, "rows": len(rows)}
    bad, res = judge(ctx, prog, src, ref, name=name + ".nano")
    out = {"name": name, "rows": len(rows), "bad": [], "error": None}
    want = ref.out.split(b"\n")
    for (e, why, r) in bad:
        got = r.out.split(b"\n")
        first = next((i for i in range(max(len(want), len(got))) if i >= len(want) or i >= len(got) or want[i] != got[i]), None)
        row = rows[first] if first is not None and first < len(rows) else None
        out["bad"].append({"engine": e, "why": why, "row": repr(row), "row_index": first,
                           "expected": want[first].decode("latin-1") if first is not None and first < len(want) else None,
                           "got": got[first].decode("latin-1") if first is not None and first < len(got) else None,
                           "result": r.brief()})
    # a one-row program for the replay
    if out["bad"] and out["bad"][0]["row_index"] is not None and out["bad"][0]["row_index"] < len(rows):
        i = out["bad"][0]["row_index"]
        one = mkprog(prog["funcs"][:-1], [prog["funcs"][-1]["body"][i], ("return", ("int", 0))])
        r1 = refeval.run(one)
        out["one_src"] = progen.print_program(one)
        out["one_expect"] = {"out": r1.out.decode("latin-1"), "exit": r1.exit}
    return out


# ----------------------------------------------------------------------------- main
def main(tier):
    ev = Evidence(PROP, tier, "exploration", RULE)
    ctx = make_ctx(99, tier, {})
    ctx.tools.prewarm(ctx.dir)
    nviol = 0
    sd = common.seed()

    for f in common.open_findings(PROP):
        rp = os.path.join(common.VERIF, f["replay"][PROP])
        src = open(rp, encoding="utf-8", newline="").read()
        still = known_still_fails(ctx, src)
        if still:
            common.report_known(PROP, "%s [%s]" % (f["what"], f["id"]))
            ev.known.append(f["id"])
        else:
            print("note: known finding %s no longer reproduces" % f["id"])
    for f in common.fixed_findings(PROP):
        rp = os.path.join(common.VERIF, f["replay"][PROP])
        src = open(rp, encoding="utf-8", newline="").read()
        ev.cls("fixed_regression_replayed")
        if known_still_fails(ctx, src):
            print("C02: fixed finding %s is back" % f["id"])
            common.report_violation(PROP, rp)
            nviol += 1

    # (b) operator table
    names = [n for (n, _p, _r) in table_programs()]
    tres = common.parallel_map(table_job, [(n, i) for i, n in enumerate(names)])
    trows = 0
    for t in tres:
        if t.get("error"):
            print("C02: table machinery error: %s" % t["error"], file=sys.stderr)
            ev.cls("table_errors")
            continue
        trows += t["rows"] * 2
        ev.cls("table_programs")
        for b in t["bad"]:
            if b["why"] in ("inconclusive",):
                ev.inconclusive += 1
                continue
            if b["why"] == "stuck":
                ev.cls("table_stuck_" + b["engine"])
                continue
            if "one_src" in t:
                ok, last = recheck(ctx, t["one_src"], t["one_expect"], b["engine"])
                if not ok:
                    ev.inconclusive += 1
                    continue
                p = save_case("table_%s_%s.nano" % (t["name"], b["engine"]), t["one_src"], t["one_expect"], b["engine"])
            else:
                p = common.save_replay(PROP, "table_%s_%s.json" % (t["name"], b["engine"]), json.dumps(b, indent=1))
            print("C02: operator table %s on %s: row %s expected %r got %r" % (t["name"], b["engine"], b["row"], b["expected"], b["got"]))
            common.report_violation(PROP, p)
            nviol += 1
            break
    ev.evaluations += trows
    ev.nontrivial_extra += trows
    ev.extra["operator_table_rows_x_engines"] = trows
    ev.extra["operator_table_exhaustive"] = True
    ev.sample({"operator_table": "op(a,b) for all ordered pairs of %d int boundaries, both spellings, both engines" % len(INT_BOUND),
               "int_boundaries": [str(x) for x in INT_BOUND]})

    # (a) (c) (d) generated programs
    plan = [("progen", 900 if tier == "quick" else 15000), ("order", 400 if tier == "quick" else 6000),
            ("order_nc", 400 if tier == "quick" else 6000), ("scope", 100 if tier == "quick" else 1500),
            ("notation", 400 if tier == "quick" else 6000)]
    for mode, total in plan:
        results = harness.run_workers("pbt.c02_semantics", tier, total, opts={"mode": mode})
        for r in results:
            ev.merge(r["evidence"])
            if r["error"]:
                print("C02: worker %d harness error (not a verdict):\n%s" % (r["widx"], r["error"]), file=sys.stderr)
                ev.cls("worker_errors")
            fl = r["failure"]
            if fl:
                ok, last = recheck(ctx, fl["src"], fl["expect"], fl["engine"])
                if not ok:
                    ev.inconclusive += 1
                    ev.cls("unconfirmed_failure")
                    continue
                if fl["sigs"]:
                    ev.cls("failure_matching_known_signature")
                    print("note: failure matches open finding signature(s) %s" % fl["sigs"])
                    continue
                p = save_case("%s_seed%d_w%d.nano" % (mode, sd, r["widx"]), fl["src"], fl["expect"], fl["engine"])
                print("C02 (%s): %s\n  result: %s\n  expected stdout tail: %r exit %s" %
                      (mode, fl["detail"], json.dumps(fl["payload"].get("result"))[:700], fl["payload"].get("expected_out", "")[-200:],
                       fl["payload"].get("expected_exit")))
                common.report_violation(PROP, p)
                nviol += 1
    ev.extra["gated_features"] = ctx.gated
    ev.assumptions = ["the reference evaluator is a hand transcription of docs/SPECIFICATION.md 4-8 (+ STDLIB.md for builtins); "
                      "/ and % truncate toward zero as the C the specification says it transpiles to",
                      "the Coq relation in formal/Semantics.v is not executed here: the NanoCore / --trust-report part of the "
                      "statement is covered only where it coincides with the specification semantics"]
    if ev.classes.get("worker_errors") or ev.classes.get("table_errors"):
        ev.write()
        sys.exit(2)
    common.finish(ev, nviol)


def known_still_fails(ctx, src):
    """Replay of a ledger entry shared with C01 (plain .nano without expectation header): compare each engine with the
    reference by running the text through both engines and requiring they differ from each other or from a header."""
    s2, meta = load_case_text(src)
    if meta:
        bad = False
        for e in ([meta["engine"]] if meta.get("engine") else ["native", "vm"]):
            b, _ = recheck(ctx, s2, meta["expect"], e, 1)
            bad = bad or b
        return bad
    p = runner.write_src(ctx.dir, "known.nano", src)
    nat = ctx.tools.run_native(p, ctx.dir)
    vm = ctx.tools.run_vm(p, ctx.dir)
    return nat.out != vm.out or nat.rc != vm.rc


def load_case_text(text):
    lines = text.split("\n")
    meta = None
    for ln in lines[:4]:
        if ln.startswith("# {"):
            meta = json.loads(ln[2:])
    return "\n".join(l for l in lines if not l.startswith("# ")), meta
