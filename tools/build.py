#!/usr/bin/env python3
"""Out-of-tree builds of /repo's current working tree into /verif/build/<flavour>.

Usage: build.py <flavour> [<flavour> ...]
Flavours: plain asan fuzz tsan
Objects are compiled by /repo/Makefile.gnu's own pattern rules (OBJ_DIR override);
tools are linked here.  A content hash of /repo/src + Makefile.gnu is stamped in
the build directory; when it changes the whole flavour is rebuilt from scratch
(header dependencies in Makefile.gnu are incomplete, so mtime-only increments
would be unsound).
"""
import fcntl
import hashlib
import os
import shutil
import subprocess
import sys
import time

REPO = os.environ.get("VERIF_REPO", "/repo")
VERIF = os.path.dirname(os.path.dirname(os.path.abspath(__file__)))
BUILD = os.path.join(VERIF, "build")
GUARD = "-DNANOLANG_VERIF"

BASE_CFLAGS = "-Wall -Wextra -std=c99 -g -Isrc -D_GNU_SOURCE " + GUARD
SAN = "-fsanitize=address,undefined -fno-sanitize-recover=undefined -fno-omit-frame-pointer"
FLAVOURS = {
    # cc, cflags, ldflags-extra
    "plain": ("cc", BASE_CFLAGS, ""),
    "asan": ("clang", BASE_CFLAGS + " -O1 -Wno-unused-command-line-argument " + SAN, SAN),
    "fuzz": ("clang", BASE_CFLAGS + " -O1 -Wno-unused-command-line-argument -fsanitize=fuzzer-no-link,address,undefined -fno-sanitize-recover=undefined -fno-omit-frame-pointer",
             SAN),
    "tsan": ("clang", BASE_CFLAGS + " -O1 -Wno-unused-command-line-argument -fsanitize=thread", "-fsanitize=thread"),
}

PROBE_MK = "include %s/Makefile.gnu\nprint-%%: ; @echo $($*)\n"


def tree_hash():
    h = hashlib.sha256()
    paths = [os.path.join(REPO, "Makefile.gnu")]
    for root, dirs, files in os.walk(os.path.join(REPO, "src")):
        dirs.sort()
        for f in sorted(files):
            if f.endswith((".c", ".h")):
                paths.append(os.path.join(root, f))
    for p in paths:
        h.update(p.encode())
        try:
            with open(p, "rb") as fh:
                h.update(fh.read())
        except OSError:
            h.update(b"<missing>")
    return h.hexdigest()


def make_vars(names):
    mk = os.path.join(BUILD, ".probe.mk")
    os.makedirs(BUILD, exist_ok=True)
    with open(mk + ".%d" % os.getpid(), "w") as fh:
        fh.write(PROBE_MK % REPO)
    out = {}
    try:
        for n in names:
            r = subprocess.run(["make", "-s", "-C", REPO, "-f", mk + ".%d" % os.getpid(),
                                "OBJ_DIR=@OBJ@", "print-" + n],
                               capture_output=True, text=True)
            out[n] = r.stdout.split()
    finally:
        os.unlink(mk + ".%d" % os.getpid())
    return out


def log(msg):
    sys.stderr.write("[build] %s\n" % msg)
    sys.stderr.flush()


def repo_cflags():
    """The repository's own CFLAGS (Makefile.gnu), minus -Werror, plus the hook guard."""
    v = make_vars(["CFLAGS"])["CFLAGS"]
    flags = [f for f in v if f != "-Werror"]
    if not flags:
        return BASE_CFLAGS
    return " ".join(flags) + " " + GUARD


def build(flavour):
    cc, cflags, ldx = FLAVOURS[flavour]
    cflags = cflags.replace(BASE_CFLAGS, repo_cflags())
    bdir = os.path.join(BUILD, flavour)
    os.makedirs(bdir, exist_ok=True)
    lock = open(os.path.join(BUILD, flavour + ".lock"), "w")
    fcntl.flock(lock, fcntl.LOCK_EX)
    try:
        want = tree_hash() + "|" + cc + "|" + cflags
        stamp = os.path.join(bdir, "tree.stamp")
        tools = ["nanoc", "nano_virt", "nano_vm", "nano_cop", "nano_vmd"]
        if flavour == "fuzz":
            tools = []
        ok = os.path.exists(stamp) and open(stamp).read() == want and \
            all(os.path.exists(os.path.join(bdir, "bin", t)) for t in tools)
        if ok:
            return bdir
        t0 = time.time()
        obj = os.path.join(bdir, "obj")
        shutil.rmtree(obj, ignore_errors=True)
        shutil.rmtree(os.path.join(bdir, "bin"), ignore_errors=True)
        shutil.rmtree(os.path.join(bdir, "rtcache"), ignore_errors=True)
        if os.path.exists(stamp):
            os.unlink(stamp)
        os.makedirs(os.path.join(obj, "build_bootstrap"))
        os.makedirs(os.path.join(bdir, "bin"))
        open(os.path.join(obj, "build_bootstrap", "schema.stamp"), "w").close()
        for d in ("src", "modules", "scripts", "std", "stdlib"):
            link = os.path.join(bdir, d)
            if not os.path.islink(link) and os.path.exists(os.path.join(REPO, d)):
                os.symlink(os.path.join(REPO, d), link)
        v = make_vars(["COMMON_OBJECTS", "RUNTIME_OBJECTS", "NANOVM_OBJECTS", "NANOISA_OBJECTS",
                       "NANOVIRT_OBJECTS", "VMD_OBJECTS"])
        rel = lambda lst: [x.replace("@OBJ@", obj) for x in lst]
        common = rel(v["COMMON_OBJECTS"]); runtime = rel(v["RUNTIME_OBJECTS"])
        vm = rel(v["NANOVM_OBJECTS"]); isa = rel(v["NANOISA_OBJECTS"])
        virt = rel(v["NANOVIRT_OBJECTS"]); vmd = rel(v["VMD_OBJECTS"])
        extra = [os.path.join(obj, x) for x in ("main.o", "nanovm/main.o", "nanovm/vmd_main.o",
                                                  "nanovm/cop_main.o", "nanovirt/main.o")]
        allobj = common + runtime + vm + isa + virt + vmd + extra
        cmd = ["make", "-s", "-C", REPO, "-f", "Makefile.gnu", "-j16", "OBJ_DIR=" + obj,
               "CC=" + cc, "CFLAGS=" + cflags] + allobj
        r = subprocess.run(cmd, capture_output=True, text=True)
        if r.returncode != 0:
            sys.stderr.write(r.stdout[-4000:] + r.stderr[-8000:])
            raise SystemExit("build of flavour %s failed" % flavour)
        base = virt + vm + isa + common + runtime
        ld = ["-lm", "-rdynamic"] + ldx.split()
        links = {
            "nanoc": common + runtime + [os.path.join(obj, "main.o")],
            "nano_virt": base + [os.path.join(obj, "nanovirt/main.o")],
            "nano_vm": vm + isa + common + runtime + [os.path.join(obj, "nanovm/vmd_protocol.o"),
                                                       os.path.join(obj, "nanovm/vmd_client.o"),
                                                       os.path.join(obj, "nanovm/main.o")],
            "nano_cop": vm + isa + common + runtime + [os.path.join(obj, "nanovm/cop_main.o")],
            "nano_vmd": vm + isa + common + runtime + vmd + [os.path.join(obj, "nanovm/vmd_main.o"), "-lpthread"],
        }
        procs = []
        for t in tools:
            procs.append((t, subprocess.Popen([cc, "-o", os.path.join(bdir, "bin", t)] + links[t] + ld,
                                               stdout=subprocess.PIPE, stderr=subprocess.STDOUT, text=True)))
        for t, p in procs:
            out, _ = p.communicate()
            if p.returncode != 0:
                sys.stderr.write(out[-8000:])
                raise SystemExit("link of %s (%s) failed" % (t, flavour))
        # library list for probes
        with open(os.path.join(bdir, "objs.txt"), "w") as fh:
            fh.write("\n".join(virt + vm + isa + common + runtime + vmd) + "\n")
        with open(stamp, "w") as fh:
            fh.write(want)
        log("%s built in %.1fs" % (flavour, time.time() - t0))
        return bdir
    finally:
        fcntl.flock(lock, fcntl.LOCK_UN)
        lock.close()


if __name__ == "__main__":
    for f in sys.argv[1:]:
        print(build(f))
