#!/usr/bin/env python3
"""Stand-in for nano_cop (placed first on PATH under the name `nano_cop` by the C16 check).

Spawns the real co-process ($C16_REAL_COP) and relays the pipe protocol message by message, injecting ONE fault
described by $C16_PLAN (JSON: {"step": ..., "k": n, "kind": ..., "launch": m}) when the step is reached in the
launch number m of this run (the VM relaunches the co-process after a crash; launches are counted in $C16_LOG.count).
Every injection is appended to $C16_LOG together with the pids of the stand-in and of the real co-process.
"""
import json
import os
import signal
import struct
import subprocess
import sys

plan = json.loads(os.environ.get("C16_PLAN", "{}"))
logp = os.environ.get("C16_LOG", "/dev/null")
real = os.environ["C16_REAL_COP"]

# launch counter
cnt_path = logp + ".count"
try:
    launch = int(open(cnt_path).read()) + 1
except (OSError, ValueError):
    launch = 1
with open(cnt_path, "w") as fh:
    fh.write(str(launch))

# several faults across relaunches: $C16_PLANS is a list, the entry whose "launch" equals this launch applies
_plans = json.loads(os.environ.get("C16_PLANS", "[]"))
if _plans:
    plan = next((p for p in _plans if p.get("launch") == launch), {"step": "never", "kind": "none", "launch": launch})

child = subprocess.Popen([real], stdin=subprocess.PIPE, stdout=subprocess.PIPE)


def log(msg):
    with open(logp, "a") as fh:
        fh.write("%s pid=%d real=%d launch=%d\n" % (msg, os.getpid(), child.pid, launch))


log("START")
IN = sys.stdin.buffer
OUT = sys.stdout.buffer
active = plan.get("launch", 1) == launch


def read_exact(f, n):
    buf = b""
    while len(buf) < n:
        c = f.read(n - len(buf))
        if not c:
            return None
        buf += c
    return buf


def read_msg(f):
    h = read_exact(f, 8)
    if h is None:
        return None
    ver, typ, res, ln = struct.unpack("<BBHI", h)
    p = read_exact(f, ln) if ln else b""
    if p is None:
        return None
    return h, p, typ


def finish(code=0):
    try:
        child.stdin.close()
    except OSError:
        pass
    try:
        child.wait(timeout=2)
    except subprocess.TimeoutExpired:
        child.kill()
    os._exit(code)


def do_fault(kind, reply=None):
    """Perform the fault; reply is (header, payload) of the genuine message at this point, if any."""
    log("INJECT %s at %s k=%s" % (kind, plan.get("step"), plan.get("k")))
    OUT.flush()
    if kind == "exit0":
        finish(0)
    if kind == "exit1":
        finish(1)
    if kind == "sigkill":
        child.kill()
        os.kill(os.getpid(), signal.SIGKILL)
    if kind == "close_stdin":
        os.close(0)
        # keep running: the VM's next write hits a closed pipe
        signal.pause() if False else None
        import time
        time.sleep(1.5)
        finish(0)
    if kind == "close_stdout":
        os.close(1)
        import time
        time.sleep(1.5)
        finish(0)
    if kind == "close_both":
        os.close(0)
        os.close(1)
        import time
        time.sleep(1.5)
        finish(0)
    hdr, payload = reply if reply else (struct.pack("<BBHI", 1, 0x12, 0, 0), b"")
    ver, typ, res, ln = struct.unpack("<BBHI", hdr)
    if kind.endswith("_then_linger"):
        # a protocol violation by a co-process that then neither reads nor exits: only the VM can get rid of it
        base = kind[:-len("_then_linger")]
        if base == "wrong_version":
            OUT.write(struct.pack("<BBHI", 7, typ, res, ln) + payload)
        elif base == "wrong_type":
            OUT.write(struct.pack("<BBHI", ver, 0x7F, res, ln) + payload)
        else:
            OUT.write(b"\xAA" * 11)
        OUT.flush()
        import time
        time.sleep(25)
        finish(0)
    if kind.startswith("short_header"):
        n = int(kind.split(":")[1])
        OUT.write(hdr[:n]); OUT.flush(); finish(0)
    if kind == "wrong_version":
        OUT.write(struct.pack("<BBHI", 7, typ, res, ln) + payload); OUT.flush(); return
    if kind == "wrong_type":
        OUT.write(struct.pack("<BBHI", ver, 0x7F, res, ln) + payload); OUT.flush(); return
    if kind == "len_over_max":
        OUT.write(struct.pack("<BBHI", ver, typ if typ != 0x12 else 0x10, res, 0xFFFFFFF0)); OUT.flush(); finish(0)
    if kind == "payload_short_then_eof":
        OUT.write(struct.pack("<BBHI", ver, 0x10, res, 64) + b"\x01" * 5); OUT.flush(); finish(0)
    if kind == "payload_longer":
        OUT.write(hdr + payload + b"\xAA" * 37); OUT.flush(); return
    if kind == "bad_tag":
        OUT.write(struct.pack("<BBHI", ver, 0x10, res, 9) + b"\x63" + b"\x00" * 8); OUT.flush(); return
    if kind == "array_count_huge":
        OUT.write(struct.pack("<BBHI", ver, 0x10, res, 6) + b"\x07\x01" + struct.pack("<I", 0xFFFFFFFF)); OUT.flush(); return
    if kind == "string_len_past_end":
        OUT.write(struct.pack("<BBHI", ver, 0x10, res, 9) + b"\x05" + struct.pack("<I", 0xFFFFFFF0) + b"abcd"); OUT.flush(); return
    if kind == "array_count_huge_one_elem":
        body = b"\x07\x01" + struct.pack("<I", 0xFFFFFFFF) + b"\x01" + struct.pack("<q", 7)
        OUT.write(struct.pack("<BBHI", ver, 0x10, res, len(body)) + body); OUT.flush(); return
    if kind == "string_len_wrap":
        # pos + len wraps in 32 bits: tag, len = 2^32 - 4, four bytes of data
        OUT.write(struct.pack("<BBHI", ver, 0x10, res, 9) + b"\x05" + struct.pack("<I", 0xFFFFFFFC) + b"abcd"); OUT.flush(); return
    if kind == "array_inner_string_wrap":
        body = b"\x07\x05" + struct.pack("<I", 2) + b"\x05" + struct.pack("<I", 1) + b"x" + b"\x05" + struct.pack("<I", 0xFFFFFFF0)
        OUT.write(struct.pack("<BBHI", ver, 0x10, res, len(body)) + body); OUT.flush(); return
    if kind == "array_nested_deep":
        body = (b"\x07\x07" + struct.pack("<I", 1)) * 60000 + b"\x01" + b"\x00" * 8
        OUT.write(struct.pack("<BBHI", ver, 0x10, res, len(body)) + body); OUT.flush(); return
    if kind == "ffi_error_300":
        OUT.write(struct.pack("<BBHI", ver, 0x11, res, 300) + b"E" * 300); OUT.flush(); return
    if kind == "ffi_error_20000":
        OUT.write(struct.pack("<BBHI", ver, 0x11, res, 20000) + b"E" * 20000); OUT.flush(); return
    if kind == "ffi_error_empty":
        OUT.write(struct.pack("<BBHI", ver, 0x11, res, 0)); OUT.flush(); return
    if kind == "ffi_error_1mb":
        OUT.write(struct.pack("<BBHI", ver, 0x11, res, 1 << 20) + b"E" * (1 << 20)); OUT.flush(); return
    finish(0)


step = plan.get("step")
k = plan.get("k", 1)
kind = plan.get("kind", "none")
nreq = 0
while True:
    m = read_msg(IN)
    if m is None:
        finish(0)
    h, p, typ = m
    if typ == 0x01:      # INIT
        if active and step == "before_ready":
            do_fault(kind)
            # message-level faults: relay nothing more for READY; keep serving
            child.stdin.write(h + p); child.stdin.flush()
            read_msg(child.stdout)
            continue
        child.stdin.write(h + p); child.stdin.flush()
        r = read_msg(child.stdout)
        if r is None:
            finish(1)
        OUT.write(r[0] + r[1]); OUT.flush()
        if active and step == "after_ready":
            do_fault(kind)
    elif typ == 0x02:    # FFI_REQ
        nreq += 1
        if active and step == "on_request" and nreq == k:
            do_fault(kind)
            continue
        child.stdin.write(h + p); child.stdin.flush()
        r = read_msg(child.stdout)
        if r is None:
            finish(1)
        if active and step == "before_reply" and nreq == k:
            do_fault(kind, (r[0], r[1]))
            continue
        if active and step == "mid_reply" and nreq == k:
            full = r[0] + r[1]
            OUT.write(full[:max(1, len(full) // 2)]); OUT.flush()
            do_fault(kind if kind in ("exit0", "exit1", "sigkill", "close_stdin", "close_stdout", "close_both") else "exit1")
            continue
        OUT.write(r[0] + r[1]); OUT.flush()
    elif typ == 0x03:    # SHUTDOWN
        try:
            child.stdin.write(h + p); child.stdin.flush()
        except OSError:
            pass
        finish(0)
    else:
        child.stdin.write(h + p); child.stdin.flush()
