#!/usr/bin/env python3-vt
"""Bring-up helper: generate programs with a feature set, run refeval / native / VM, print disagreements.
usage: bringup.py <n> <seed> feat1,feat2,... [--size N]"""
import sys, os, json
sys.path.insert(0, os.path.dirname(os.path.dirname(os.path.abspath(__file__))))
from hypothesis import given, settings, seed, HealthCheck, Phase
from pbt import progen, refeval, runner, common

n = int(sys.argv[1]); sd = int(sys.argv[2])
feats = set(sys.argv[3].split(",")) if sys.argv[3] != "ALL" else set(progen.ALL_FEATURES)
if sys.argv[3].startswith("ALL-"):
    feats = set(progen.ALL_FEATURES) - set(sys.argv[3][4:].split(","))
tools = runner.Tools("plain")
d = common.scratch()
tools.prewarm(d)
stats = {}
feat = {}
shown = [0]
def bump(k): stats[k] = stats.get(k, 0) + 1

@seed(sd)
@settings(max_examples=n, database=None, deadline=None, suppress_health_check=list(HealthCheck), phases=[Phase.generate])
@given(progen.programs(features=feats, size=3))
def t(prog):
    src = progen.print_program(prog)
    for k in prog["features"]: feat[k] = feat.get(k, 0) + 1
    ref = refeval.run(prog)
    bump("ref_" + ref.kind)
    if ref.kind != "normal":
        if ref.kind == "undefined": bump("undef:" + ref.why)
        return
    p = runner.write_src(d, "p.nano", src)
    nat = tools.run_native(p, d)
    vm = tools.run_vm(p, d)
    bump("nat_" + nat.cls); bump("vm_" + vm.cls)
    bad = []
    if nat.cls != "normal" or nat.out != ref.out or nat.rc != ref.exit: bad.append("native")
    if vm.cls != "normal" or vm.out != ref.out or vm.rc != ref.exit: bad.append("vm")
    import re
    for m in set(re.findall(rb"\[-Werror=([a-z-]+)\]", nat.err)):
        bump("WERROR_" + m.decode())
        fn = "/var/tmp/t1/werror_%s.nano" % m.decode()
        if not os.path.exists(fn):
            open(fn, "w").write(src + "\n# " + nat.err.decode("utf-8", "replace").replace("\n", "\n# "))
    if nat.cls == "internal_failure" and b"-Werror=" in nat.err and os.environ.get("SKIPWERR"):
        return
    if bad:
        bump("DISAGREE_" + "+".join(bad))
        if shown[0] < int(os.environ.get("SHOW", "3")):
            shown[0] += 1
            print("=" * 100); print(src)
            print("--- ref:", ref, ref.out[-300:])
            print("--- native:", nat)
            print("--- vm:", vm)
            open("/var/tmp/t1/bringup_fail_%d.nano" % shown[0], "w").write(src)
t()
print(json.dumps(stats, indent=1, sort_keys=True))
print('features:', ' '.join('%s=%d' % kv for kv in sorted(feat.items())))
