#!/usr/bin/env python3-vt
"""List 'stuck' cases (internal failure on one backend) for the C01 strategy: error signature histogram + examples."""
import sys, os, re, json
sys.path.insert(0, os.path.dirname(os.path.dirname(os.path.abspath(__file__))))
from hypothesis import given, settings, seed, HealthCheck, Phase
from pbt import progen, refeval, runner, common, harness, c01_backends
n = int(sys.argv[1]); sd = int(sys.argv[2])
ctx = c01_backends.make_ctx(0, "quick", {})
if len(sys.argv) > 3:
    ctx.features = ctx.features - set(sys.argv[3].split(","))
ctx.tools.prewarm(ctx.dir)
hist = {}
ex = {}
@seed(sd)
@settings(max_examples=n, database=None, deadline=None, suppress_health_check=list(HealthCheck), phases=[Phase.generate])
@given(c01_backends.strategy(ctx))
def t(prog):
    ref = refeval.run(prog)
    if ref.kind != "normal":
        k = "ref:" + ref.kind + ":" + ref.why
        hist[k] = hist.get(k, 0) + 1
        return
    src = progen.print_program(prog)
    verdict, detail, nat, vm = c01_backends.compare(ctx, src)
    if verdict in ("stuck", "both_rejected", "differ"):
        for r, nm in ((nat, "nat"), (vm, "vm")):
            if r.cls not in ("normal",):
                e = r.err.decode("utf-8", "replace")
                m = re.findall(r"error: ([^\n]*)", e)
                sig = nm + ":" + r.cls + ":" + (re.sub(r"[0-9]+", "N", m[0])[:110] if m else e[-120:].replace("\n", " "))
                hist[sig] = hist.get(sig, 0) + 1
                if sig not in ex:
                    ex[sig] = src
        if verdict == "differ":
            hist["DIFFER " + detail] = hist.get("DIFFER " + detail, 0) + 1
            ex.setdefault("DIFFER " + detail, src + "\n# nat: %r\n# vm: %r" % (nat.out[-300:], vm.out[-300:]))
t()
for k, v in sorted(hist.items(), key=lambda kv: -kv[1]):
    print(v, k)
os.makedirs("/var/tmp/t1/stuck", exist_ok=True)
for i, (k, src) in enumerate(ex.items()):
    open("/var/tmp/t1/stuck/%02d.nano" % i, "w").write("# " + k + "\n" + src)
    print("/var/tmp/t1/stuck/%02d.nano" % i, k[:150])
