#!/bin/bash
# usage: fuzzloop.sh <target> <seconds> <corpusdir> [extra libfuzzer args]  -- triage helper (not a registered check)
t=$1; secs=$2; corp=$3; shift 3
cd /verif && python3 tools/build.py fuzz >/dev/null 2>&1 && python3 -c "
import sys; sys.path.insert(0,'.')
from pbt import common
common.build_probe('$t', 'fuzz', libs=(), fuzzer=True)" 2>&1 | grep -v "^\[build"
W=/var/tmp/t1/fl_$t; rm -rf $W; mkdir -p $W/art
for j in 1 2 3 4 5 6 7 8 9 10 11 12; do mkdir -p $W/c$j; ( ASAN_OPTIONS=detect_leaks=0 UBSAN_OPTIONS=print_stacktrace=1 timeout $((secs+30)) /verif/build/fuzz/probes/$t -max_len=4096 -timeout=5 -rss_limit_mb=3000 -max_total_time=$secs -seed=$((j+100)) -close_fd_mask=3 -artifact_prefix=$W/art/j${j}_ "$@" $W/c$j $corp > $W/log$j 2>&1 & ); done
sleep $((secs+8))
ls $W/art | sed 's/-.*//' | sort | uniq -c
for f in $W/art/*; do
  [ -f "$f" ] || continue
  ASAN_OPTIONS=detect_leaks=0 UBSAN_OPTIONS=print_stacktrace=1 timeout 20 /verif/build/fuzz/probes/$t $f 2>&1 | grep -E "ERROR: AddressSanitizer|runtime error|ALARM|#[0-3] 0x" | head -5 | sed 's/0x[0-9a-f]* in //; s/(\/verif.*//' | cut -c1-160 | tr '\n' '|'; echo " <- $(basename $f)"
done | sort | uniq -c -w 120 | sort -rn | head -20
for j in 1 2; do grep -E "^#[0-9]+.*cov:" $W/log$j | tail -1 | cut -c1-100; done
