#!/usr/bin/env python3
"""Regenerates MANIFEST.json from the table below (keeps the file valid at all times)."""
import json
import os
import subprocess

VERIF = os.path.dirname(os.path.dirname(os.path.abspath(__file__)))

CLAIMED = {
    "C11": dict(
        category="exploration",
        technique="exhaustive opcode x boundary-operand round trips + rapidcheck random operands/bytes (in-process, ASan/UBSan); Hypothesis-generated programs for the disassemble->assemble round trip",
        text="Round-trip oracle decode(encode(i))==i / encode(decode(b))==b over every opcode byte with the full cross product of 29 boundary bit patterns per operand slot (exhaustive for that grid), every truncation length, exact-fit heap buffers under ASan, plus random operands and random byte strings; assemble(disassemble(m)) compared on code bytes, function table and string pool for compiler-produced modules from generated programs (hostile string alphabets, label-capacity family) and from the repository's tests/examples. Exploration: random parts sample the space; only the grid is complete.",
        note="Trusts clang ASan/UBSan to expose out-of-bounds accesses; 'defined opcode' is taken from the implementation's own table (isa_get_info), so a consistent re-numbering is not a violation; the textual form has no directive for imports/debug/flags, which the property does not claim. The label-capacity family has variants with while / for loops after every 100 conditionals (numeric backward offsets beyond the disassembler's label table).",
        design="3/C11"),
    "C12": dict(
        category="fault_enumeration",
        technique="exhaustive fault enumeration (every body bit flip, every truncation, bursts 2..32 bits at every offset with sampled interiors, tails, magic/version values) against the loader in-process under ASan; Hypothesis-drawn faults end to end through nano_vm",
        text="For each of several compiler-produced files (fixed programs covering all section kinds + seed-chosen repository programs) the fault space named by the property is enumerated: complete for single-bit flips, truncation lengths and magic/version values, complete over (offset, length) for bursts with fixed and sampled interior patterns; oracle nvm_deserialize == NULL on exact-size heap buffers (ASan/UBSan). A Hypothesis sample of the same fault space is applied to files on disk and run through nano_vm: non-zero exit, error text, no program output.",
        note="Complete only for the files used; burst interiors and tail contents are sampled. Header fields other than magic/version are outside the statement ('after its header') and belong to C13.",
        design="3/C12"),
    "C01": dict(
        category="exploration",
        technique="Hypothesis-generated typed programs (progen), differential oracle native vs NanoVM on stdout bytes + exit status, shrinking to a minimal .nano replay; feature gates tied to the findings ledger",
        text="Well-typed, terminating, defined-by-construction programs over the documented core language (ints incl. 64-bit boundaries and wrapping, bools, strings incl. escapes/UTF-8/long literals, floats compared, arrays, structs, enums, unions+match, tuples, globals, recursion, first-class functions, while/for/break/continue, shadowing) are compiled by nanoc (+cc) and by nano_virt --run; stdout bytes and exit status must be equal. A reference evaluator only discards undefined/over-budget programs. Exploration: the program space is sampled; open ledger findings gate their trigger shapes (counted in evidence).",
        note="About a third of the cases are rendered as two files (type definitions and up to three functions in a module the main file imports; functions with enum/union-typed signatures or used as values stay in the main file, see DESIGN.md C.5). map/filter/reduce, HashMap and contracts are not generated; native programs link a prebuilt archive of the runtime compiled with nanoc's own flags (tools/nanocc shim).",
        design="3/C01"),
    "C02": dict(
        category="exploration",
        technique="reference-model oracle: independent Python evaluator transcribed from SPECIFICATION.md 4-8 vs each engine, on Hypothesis-generated programs, evaluation-order and scope probes, plus an exhaustive operator x boundary-operand table",
        text="Each engine (native binary, nano_virt --run) is compared separately with an executable transcription of the specification: strict left-to-right evaluation (probes whose leaves print their own id inside operators, calls, literals, cond, and/or), short-circuit, equal-precedence infix, static scoping / shadowing towers (sections 8.1, 8.2), immutability, 64-bit wrap-around. The operator table covers every ordered pair of 17 int boundaries for 11 int operators (both spellings), all bool pairs, a string set, and the unary operators, with operands arriving at run time. Exploration level; only the table is exhaustive.",
        note="The reference model is hand-written (trusted base); / and % follow C truncation. The Coq big-step relation (formal/Semantics.v) is not executed: the NanoCore/--trust-report clause is checked only through the specification semantics it shares (see DESIGN.md limits).",
        design="3/C02"),
    "C04": dict(
        category="exploration",
        technique="Hypothesis-generated programs plus AST-level mutants filtered by the type checker itself; validity-predicate oracle over compile and run endings on both backends",
        text="Domain = programs the front end accepts silently: progen programs and 1-3-point mutants of them (operator swapped, operand replaced by a variable/literal of any type, arguments swapped, declared type changed, strings under ordering) that survive nano_virt's type checker without a diagnostic. Oracle: nanoc + cc succeed, bytecode generation and verification succeed, and both runs end normally or in a documented fault; any 'C compilation failed', 'codegen failed', VM type/decode/stack error, or fatal signal is a violation. Open ledger entries exclude their trigger shape from generation and mutation (counted).",
        note="'Accepted' is observed through nano_virt (no front-end failure, no diagnostic banner). Refusals by nanoc's compile-time shadow evaluation are left to C03/C06. Mutants keep loop headers and recursion guards intact so that they terminate. Also enumerated: the placement matrix - six declaration-bearing statements (function-typed, tuple, struct, union and array lets) as the only occurrence of their type inside each of ten statement containers, in main and in a helper function.",
        design="3/C04"),
    "C07": dict(
        category="exploration",
        technique="metamorphic oracle: the same expression tree printed in prefix and in infix spelling must compile to byte-identical code/function/string sections (nano_virt --emit-nvm) and run identically; exhaustive typed operator chains of length 1-3 plus Hypothesis-generated trees",
        text="Every typed left chain `a o1 b o2 c [o3 d]`, its right-nested variant and its unary-led variant over the 13 binary and 2 unary operators (exhaustive for those shapes over a fixed operand set), plus random trees with field chains, tuple indices, calls, negative literals and bare `not v` / `-v`, placed as let initialiser, if condition, call argument and println operand. The two spellings' .nvm files are compared section by section and --run outputs are compared; a rejection of only one spelling is a violation.",
        note="Operands in the exhaustive part are fixed variables/literals; a statement-count ramp (the same expressions as 300 / 1100 / 2500 statements, with a forced bare unary in half of them) checks that the per-expression nesting budget does not leak across statements. `(-a + b)` directly after an opening parenthesis is the prefix application of `-` in this language and is never generated as an infix form.",
        design="3/C07"),
    "C10": dict(
        category="exploration",
        technique="rapidcheck round-trip property over API-built modules (in-process, ASan/UBSan) + differential oracle over three runners (nano_virt --run, nano_vm file, native wrapper) on Hypothesis-generated programs; serialize(load(file)) == file on every compiler-produced module",
        text="(a) deserialize(serialize(m)) == m field by field (strings with lengths incl. empty/duplicate/high bytes/long, function table with arbitrary field values, code up to 70 KiB, imports with parameter tables, debug entries, flags, entry point), serialize idempotent, stored CRC consistent - on modules built through the public nvm_* API by rapidcheck. (b) stdout bytes and exit status of the three ways to run a compiled program are equal, over exit statuses 0..255, runs ending in a failed assert, programs with globals (__init__) and extern calls; every produced .nvm is a fixed point of load/serialize.",
        note="The wrapper is built through nano_virt -o (links the prebuilt objects of build/plain). Sampling, not enumeration. Programs may start with getenv / getcwd calls (string arguments travel through the import table of the stored module); the harness sets the variables.",
        design="3/C10"),
    "C08": dict(
        category="exploration",
        technique="Hypothesis-generated bounds cases (array length x boundary index x element kind x operation x index delivery x placement) with an exact oracle (exit != 0 and nothing after the access / model value for in-range controls) on native, NanoVM (plain and ASan/UBSan builds), nano_vm and the compile-time evaluator",
        text="Indices are drawn from a boundary set around n, 2^31, 2^32 (incl. 2^32+k that a 32-bit cast would wrap into range) and +-2^63, reach the access only at run time (function result, loop, global, arithmetic), and the access sits at statement level, inside an operand, in a callee or on the k-th loop iteration; reads and writes of int/bool/string/float arrays; in-range controls keep the oracle from passing vacuously. Field cases (tuple index past arity, undeclared field, field of another union variant) must be refused at compile time or stop at run time.",
        note="array_pop on an empty array and the wrong-variant field are recorded findings (ledger). Out-of-range behaviour of array_slice/array_remove_at is not in the statement and not asserted. A fifth placement puts the access into the initialiser of a top-level let (it runs before main, or at compile time for nanoc).",
        design="3/C08"),
    "C09": dict(
        category="exploration",
        technique="coverage-guided fuzzing (libFuzzer in-process front-end target under ASan/UBSan, dictionary, empty and repository corpus) + Hypothesis token-level mutation of valid programs + nesting ramps, all judged by one subprocess oracle on the ASan build of nano_virt",
        text="Oracle: nano_virt --emit-nvm (ASan+UBSan build) exits 0 or 1, exit 1 carries a diagnostic, no signal, no sanitizer report, bounded time (suspected hangs re-run 3x with 10x budget), nesting beyond the documented limit of 1000 is rejected for every construct that nests by recursion. Inputs: fuzzer-generated byte strings (crash/timeout artifacts re-validated through the oracle), 1-4 token-level edits of generated valid programs (delete/duplicate/swap/replace/truncate/splice/unbalance/keyword injection/raw bytes), and ramps of 15 recursive constructs to depth 30 000 (100 000 in thorough). A stack overflow seen only under instrumentation is re-checked on the build as shipped.",
        note="Leaks are outside the property. libFuzzer campaigns are only approximately reproducible from VERIF_SEED; saved artifacts are the reproducible unit. Import processing is exercised with unresolvable paths only (no module files are generated). The mutation family also starts from seven hand-written valid programs over generics, contracts, function values, collections, FFI and enums/unions, with type-word and identifier swaps; 192 import graphs over real module files (cycles, self imports, missing and broken modules) are enumerated.",
        design="3/C09"),
    "C13": dict(
        category="exploration",
        technique="coverage-guided fuzzing (libFuzzer + ASan/UBSan) of an in-process loader->verifier->VM target with checksum fix-up and a structure-aware module builder; oracle inside the target (return / error code / verifier-VM agreement) under an instruction budget",
        text="Inputs: raw .nvm images mutated from compiler-produced seeds with the CRC recomputed, and modules assembled from FuzzedDataProvider bytes through the public nvm_* API (weighted 90-opcode alphabet, boundary operands incl. 2^31/2^32/INT64 extremes, arbitrary function-table fields) then patched at arbitrary u32 offsets and re-checksummed. Every accepted import-free module is executed with 20 000 instructions of fuel (hook H1). Violations: any sanitizer report or signal in loader, verifier or VM, or a decode/invalid-opcode error at an instruction boundary the verifier walked. Evidence counts how many inputs were loaded / verified / executed.",
        note="Only crash- artifacts count; oom-/slow-/timeout- artifacts are load noise (memory exhaustion by huge allocations is not in the statement). Campaigns are approximately reproducible from VERIF_SEED; artifacts are the reproducible unit. The daemon path (no verifier call) belongs to C18. The structure-aware builder draws table sizes from growth steps and emits self-containing container idioms (array holding itself directly or through union / tuple / struct / closure, then print / string conversion / comparison); a timeout artifact that does not finish alone within 100 s, twice, is a violation.",
        design="3/C13"),
    "C05": dict(
        category="exploration",
        technique="catalogue of rule-violating snippets (ill-formed by construction) inserted at generated positions into Hypothesis-generated well-typed programs; oracle over four tool invocations: non-zero exit, diagnostic, no artifact, sentinel never printed",
        text="Operator typing matrix from specification 4.4-4.6 (14 binary operators x 16 ordered operand-type pairs x prefix/infix x variable/literal operands: 1 328 ill-typed entries, enumerated completely at two placements each and sampled with random base programs) plus 49 hand-written snippet variants over 14 rule classes (operand/argument type, arity of user functions and builtins, unknown and out-of-scope names, use before declaration, assignment to immutable variable/parameter, missing return, return type, non-bool condition, let/set type, unknown field/variant, consumed resource, extern outside unsafe) x 6 placements (top/end of main, nested block, loop body, other function, shadow body), exhaustively on a minimal base program and sampled on generated base programs; nanoc -o, nano_virt --run, --emit-nvm, -o are all required to refuse without leaving an artifact or executing the sentinel-printing main/shadow blocks.",
        note="Variants/placements that are recorded findings are excluded by construction and counted (ledger c05_variants / c05_placements). nanoc does not echo shadow-block output without --verbose, so 'executed nothing' is observable for nanoc only through the artifact and exit status. Rule class fn_signature (function values whose last / first / only parameter, result or arity differs from the declared function type, as argument and in a let) and five variants of a bare extern call statement after an unsafe block were added after seeded changes slipped through.",
        design="3/C05"),
    "C06": dict(
        category="exploration",
        technique="Hypothesis-generated template programs whose shadow assertions have truth values constructed by the generator (reference truth table), oracle on nanoc's exit status, 'Shadow test ... FAILED' lines, existence of the executable and missing-shadow reports",
        text="1-12 functions, 1-5 assertions each with generator-computed truth (calls of linear helpers, literals, and/not forms), each placed plainly or inside if-true / if-false / else / while (0,1,3 iterations) / for (0,2 iterations) / a callee invoked by the shadow block; functions without shadow blocks mixed in. A false assertion counts only when executed. The biconditional is checked in both directions, every failing test must be named, every shadow-less function reported, and the all-true executable must run.",
        note="Fresh output path per case. Also generated: assertions after a for/while loop left by break/continue (plain, nested, inside an outer loop) and functions that call an extern function directly (nanoc skips their shadow block: their assertions count as not executed; switched off automatically if the front end ever rejects such a call). Shadow blocks of imported modules are not exercised (nanoc does not run them; DESIGN.md 3/C06).",
        design="3/C06"),
    "C03": dict(
        category="exploration",
        technique="differential oracle between nanoc's compile-time evaluator (shadow output from --verbose) and the native binary running the same calls, on Hypothesis-generated programs with generated argument tuples; assertion truth from the reference evaluator",
        text="For every generated function with scalar parameters the shadow block prints and asserts call results for 1-3 literal argument tuples; the compiled twin program performs the same calls in main. The text printed between 'Testing f...' and PASSED/FAILED must equal the binary's output slice, PASSED/FAILED must match the constructed truth of the assertions (about 1 in 7 falsified), all-true programs must not be refused and programs with a false assertion must be.",
        note="Functions with array/struct parameters are only reached as callees. Open evaluator findings gate their trigger shapes for C03/C06 only (ledger gate_for).",
        design="3/C03"),
    "C19": dict(
        category="exploration",
        technique="metamorphic oracle: the same generated sources compiled under Hypothesis-drawn pairs/triples of configurations must give byte-identical .nvm and generated C and equal diagnostics",
        text="Configurations vary the working directory, relative vs absolute invocation path, TMPDIR, 0-50 extra environment variables, MALLOC_PERTURB_, ASLR (setarch -R), LANG, process ids (padding processes) and the compiler build itself (plain vs ASan: different allocator and layout). Compared: nano_virt --emit-nvm bytes, nanoc -S generated C bytes, exit statuses, and both tools' own diagnostics with the source path normalised. Programs come from progen plus a two-file import example.",
        note="No MSan toolchain: uninitialised-memory dependence is attacked only through MALLOC_PERTURB_/ASLR/allocator change. Programs with imports (fixed two-file programs incl. a module with extern functions and a transitive import, and split renderings of generated programs) vary the directory and path form too; while the module-path finding about generated C is open, the generated C is left out of the comparison for them (counted), the .nvm and diagnostics are compared.",
        design="3/C19"),
    "C20": dict(
        category="exploration",
        technique="Hypothesis-generated programs compiled natively with clang ASan+UBSan for runtime and generated code (oracle: no sanitizer report, normal or documented ending) + rapidcheck operation histories over dyn_array (all element kinds) and the reference-counting GC against reference models, in-process under ASan/UBSan",
        text="(a) the NANO_CC shim switches nanoc's C compiler to clang -fsanitize=address,undefined for both src/runtime/*.c and the generated translation unit; progen programs with string building in loops, arrays of strings through calls, structs/unions/tuples holding heap values, early exits from nested scopes and recursion must run sanitizer-clean. (b) histories of new/push/pop/get/set/remove_at/clear/reserve/clone on dyn_array are compared with a std::vector after every command (length, capacity >= length, element type, all elements, clone independence); gc_alloc/gc_alloc_opaque/retain/release/collect histories are compared with a reference-count model (ref_count, live-object statistics, finalizer calls, contents).",
        note="Leaks are outside the statement. A third of the cases are to_string formatting programs (arrays of int/string/float/bool, struct, union; element counts and field lengths around the 256/512/1024-byte growth steps of the generated string builder). HashMap/List<T> ownership paths and gc_struct are not generated; dyn_array_insert_* are declared but undefined in the runtime.",
        design="3/C20"),
    "C14": dict(
        category="exploration",
        technique="invariant over the run: guarded live-object registry + heap audit at every instruction boundary (hook H2) on Hypothesis-generated aliasing-heavy programs, plus a churn family with a growth bound; plain and ASan builds of the VM",
        text="The audit walks the operand stack (locals) and globals and every container reachable from them, counts references per object and reports a reference to a non-live object or ref_count < references found; frees of unregistered objects are reported at once. Programs come from progen with aliasing on (values bound to several names, stored in arrays/structs/tuples/unions, passed through and returned from calls, overwritten while aliased, early exits from loops); every fourth program also runs under ASan. Twelve loop bodies that allocate per iteration are run with k = 10, 100, 1000 and the live-object count must not grow by more than 8.",
        note="References held only in C locals of the interpreter between two instructions are invisible to the audit (they can only make ref_count larger than the audited in-degree). The registry is process-global and only active with NANOLANG_VERIF_AUDIT set. Generated programs include slices, HashMap inserts / overwrites / removals, fields of call results and string-lifetime idioms.",
        design="3/C14"),
    "C15": dict(
        category="exploration",
        technique="rapidcheck round-trip property over the co-process wire codec (in-process, ASan/UBSan) + differential oracle nano_vm vs nano_vm --isolate-ffi on Hypothesis-generated programs that call external functions",
        text="(a) NanoValue trees (ints incl. boundaries, floats by bit pattern incl. NaN payloads/inf/-0.0, bool, strings up to 70 000 arbitrary non-NUL bytes, opaque, void, nested and empty arrays) must survive serialize/deserialize bit for bit with consumed == written; exact-fit buffers work, one-byte-short and empty buffers and truncated inputs are refused without out-of-bounds access. (b) programs with 2-10 external calls (ctype-style builtins, math builtins, string_from_char, user-declared libc functions in unsafe blocks, strlen on strings from 0 to 70 000 bytes and on UTF-8) print the same bytes and exit with the same status in-process and through nano_cop.",
        note="Co-process clean-up and fault containment are C16. A run whose in-process version already dies (libc ctype functions on out-of-range ints) is skipped, not judged.",
        design="3/C15"),
    "C16": dict(
        category="fault_enumeration",
        technique="complete enumeration of a (protocol step x fault kind) grid injected by a relaying stand-in co-process, plus Hypothesis-generated sequences of faults across relaunches and a rapidcheck property over the reply decoder on hostile bytes (in-process, ASan/UBSan); oracle on the VM's ending, output prefix, error report and leftover processes",
        text="A stand-in nano_cop first on PATH relays every message between nano_vm --isolate-ffi and the real nano_cop and injects one fault: 11 protocol steps (before/after READY; on request, before reply, mid-reply for calls 1-3) x 32 kinds (exit 0/1, SIGKILL, closing either or both pipes, 1-7 byte headers, wrong version/type, length beyond COP_MAX_PAYLOAD, short and overlong payloads, undecodable values incl. lengths that wrap in 32 bits and 60 000-deep nesting, empty, 300-byte, 20 000-byte and 1 MiB error texts, protocol violations after which the co-process neither reads nor exits) - 352 plans, all executed, all fire. The VM must end with status 0 or 1 (never a signal), report an error when it fails, keep every line printed before the faulted call, print nothing wrong, and leave neither the stand-in nor the real co-process alive.",
        note="The stand-in is a Python relay: timing differs from a real crash. Only the workload's five calls are exercised (requests 1-3 faulted).",
        design="3/C16"),
    "C17": dict(
        category="exploration",
        technique="differential oracle per client (nano_vm --daemon vs standalone nano_vm) on Hypothesis-generated batches of concurrent clients with drawn arrival offsets, against a private daemon (hook H3) in the plain and the ThreadSanitizer build",
        text="Batches of up to 24 (quick) / 64 (thorough) real client processes over 1-5 distinct modules - outputs from 0 bytes to several hundred KiB with a per-module marker on every line, globals, heap-heavy loops, failed asserts, out-of-range accesses, non-zero exit statuses, external calls routed through co-processes - are submitted with 0-20 ms arrival offsets. Each client's stdout bytes, exit status and error text must equal the standalone run of its module, no foreign marker may appear, the daemon must survive, and every fourth batch runs against a TSan-instrumented daemon whose log must be free of data-race reports.",
        note="The schedule space is sampled, not enumerated: only arrival offsets are controlled (yield-injection hook H4 was not built). A failure must reproduce in 2 of 3 re-runs. Modules may print tuples, arrays and structs and may end or fault with an unterminated line pending; only the part of the daemon log a batch produced is judged.",
        design="3/C17"),
    "C18": dict(
        category="exploration",
        technique="stateful generation: Hypothesis-generated sequences of client behaviours played by a raw-socket client against a private ASan daemon (hook H3); invariant after every step (daemon alive, PING answered within 2 s, clean sanitizer log) and a differential oracle (stand-alone nano_vm) for every well-formed session",
        text="Sequences of 2-30 behaviours from: well-formed exec (short and ~1.5 MiB output), ping, status, header only, payload truncated at 0/1/7/8/half/len-1 bytes, garbage, wrong version, unknown type, length beyond VMD_MAX_PAYLOAD, zero-length exec, a non-module payload, eleven hostile modules (well-checksummed images whose entry function is overwritten with stack underflow, out-of-range local / call / string / global / jump, invalid opcode, truncated operand; function table and entry index out of range; bad checksum), disconnect before / during / after output, and stalled clients (up to 8 kept open across later steps). After every step the daemon must be alive and answer PING; every well-formed session must get the stand-alone result byte for byte; a hostile module that the stand-alone VM refuses must not get a success reply and its session must end; the daemon log must be free of sanitizer reports.",
        note="Interleavings are the scheduler's; only the order of the steps and which sessions stay open are generated. 'The offending session ends with an error reply or a closed connection' is read as: no success reply (EXIT_CODE 0 without ERROR) for a module that nano_vm refuses. Endless-loop modules are not submitted (the daemon has no execution budget; the property does not promise one). STATUS replies are checked against the number of sessions the client holds open; one hostile module loads an upvalue outside a closure; only the part of the daemon log a case produced is judged.",
        design="3/C18"),
}

NOT_YET = {
}


def main():
    props = [json.loads(l) for l in open(os.path.join(VERIF, "properties.jsonl"))]
    hooks_commits = []
    try:
        out = subprocess.run(["git", "-C", "/repo", "log", "--format=%h %s"], capture_output=True, text=True).stdout
        for line in out.splitlines():
            h, _, s = line.partition(" ")
            if s.startswith("verif-hook:"):
                hooks_commits.append(h)
    except OSError:
        pass
    checks = []
    na = []
    for p in props:
        pid = p["id"]
        if pid in CLAIMED:
            c = CLAIMED[pid]
            checks.append({
                "property_id": pid,
                "quick_cmd": "./check %s --tier quick" % pid,
                "thorough_cmd": "./check %s --tier thorough" % pid,
                "evidence_file": "/verif/evidence/%s.json" % pid,
                "replay_cmd_template": "./check %s --replay {path}" % pid,
                "level_claimed": {"category": c["category"], "text": c["text"], "design_ref": "DESIGN.md section " + c["design"]},
                "level_note": c["note"],
                "technique": c["technique"],
            })
        else:
            na.append({"property_id": pid,
                       "reason": NOT_YET.get(pid, "check not built yet in this round (design in DESIGN.md section 3); not claimed until its machinery is committed")})
    doc = {
        "version": 1,
        "setup_cmd": "python3 tools/build.py plain asan",
        "hooks": {
            "guard": "NANOLANG_VERIF",
            "enable": "tools/build.py compiles /repo/src out of tree into /verif/build/<flavour> with -DNANOLANG_VERIF (all flavours)",
            "baseline_off_cmd": "make -C /repo -f Makefile.gnu test-nanovirt",
            "source_commits": hooks_commits,
            "add_only": True,
        },
        "checks": checks,
        "not_applicable": na,
        "notes": "All checks: ./check <ID> --tier quick|thorough; VERIF_SEED selects the pseudo-random stream. known_findings.json is the committed ledger (open -> KNOWN-FINDING lines, fixed -> regression replays).",
    }
    with open(os.path.join(VERIF, "MANIFEST.json"), "w") as fh:
        json.dump(doc, fh, indent=1)
        fh.write("\n")


if __name__ == "__main__":
    main()
