#!/bin/bash
# usage: seed_eval.sh <seed-name> <worktree> <check-id> [more check ids]
# 1. confirms the seeded change in its scratch worktree (demo passes clean / fails patched, suite still 62 passed)
# 2. stores it under /verif/seeded/<seed-name>/
# 3. applies it to /repo, runs the given checks (quick tier), reverts /repo
set -u
name=$1; wt=$2; shift 2
out=/verif/seeded/$name
mkdir -p $out
cd $wt || exit 2
cp seed_out/patch.diff seed_out/demo.sh seed_out/meta.json $out/ 2>/dev/null
git checkout -q -- src
make -f Makefile.gnu -j16 bin/nanoc_c nano_virt nano_vm nano_cop nano_vmd >/dev/null 2>&1
bash $out/demo.sh $wt >$out/demo_clean.log 2>&1; rc_clean=$?
git apply $out/patch.diff || { echo "PATCH DOES NOT APPLY"; exit 2; }
make -f Makefile.gnu -j16 bin/nanoc_c nano_virt nano_vm nano_cop nano_vmd >/dev/null 2>&1 || { echo "PATCHED TREE DOES NOT BUILD"; exit 2; }
bash $out/demo.sh $wt >$out/demo_patched.log 2>&1; rc_patched=$?
suite=$(make -f Makefile.gnu test-nanovirt 2>&1 | tail -1)
echo "demo clean rc=$rc_clean patched rc=$rc_patched suite: $suite"
ran="confirmed in $wt: demo.sh exit $rc_clean on HEAD, exit $rc_patched with patch; test-nanovirt: $suite"
# apply to /repo and run checks
cd /verif
git -C /repo apply $out/patch.diff || { echo "does not apply to /repo"; exit 2; }
results=""
for c in "$@"; do
  t0=$(date +%s)
  ./check $c --tier quick > $out/check_$c.log 2>&1; rc=$?
  t1=$(date +%s)
  v=$(grep -c "^VIOLATION property=$c" $out/check_$c.log)
  echo "check $c: exit $rc, $v VIOLATION line(s), $((t1-t0))s"
  results="$results $c:exit$rc:viol$v"
done
git -C /repo checkout -- .
# replay files written by the runs on the seeded tree are not findings about /repo
git -C /verif clean -fdq replay
git -C /verif checkout -- replay evidence 2>/dev/null   # evidence of a seeded tree is not evidence about /repo
python3 - "$out" "$ran" "$results" <<'PY'
import json,sys
out,ran,results=sys.argv[1:4]
try: m=json.load(open(out+'/meta.json'))
except Exception: m={}
m['what_was_run']=ran
m['checks_quick']=results.strip()
json.dump(m,open(out+'/meta.json','w'),indent=1)
PY
# restore evidence of the unchanged tree is the caller's job (re-run the checks)
