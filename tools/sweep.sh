#!/bin/bash
# sweep.sh <tier> <seed>... : run every claimed check at each seed, one after the other; summary on stdout
tier=$1; shift
cd "$(dirname "$0")/.."
for sd in "$@"; do
  mkdir -p /var/tmp/sweep/$tier/$sd
  for id in $(python3 -c "import json; print(' '.join(c['property_id'] for c in json.load(open('MANIFEST.json'))['checks']))"); do
    t0=$(date +%s)
    VERIF_SEED=$sd ./check $id --tier $tier > /var/tmp/sweep/$tier/$sd/$id.log 2>&1
    rc=$?
    nv=$(grep -a -c '^VIOLATION' /var/tmp/sweep/$tier/$sd/$id.log)
    echo "seed=$sd $id rc=$rc violations=$nv secs=$(( $(date +%s) - t0 ))"
  done
done
