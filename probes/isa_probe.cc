// C11 probe: instruction encode/decode round trips (exhaustive boundary grid + rapidcheck random)
// and disassemble->assemble round trip of .nvm modules.
//
//   isa_probe enc [random_per_opcode]       exhaustive grid + random tuples (RC_PARAMS seeds rapidcheck)
//   isa_probe instr <op> <v0> <v1> <v2> <v3>  replay one instruction (u64 bit patterns, decimal or 0x)
//   isa_probe bytes <hex>                   replay one byte string (decode->encode direction)
//   isa_probe asm <file.nvm>...             assemble(disassemble(m)) == m on code/functions/strings
#include <rapidcheck.h>
#include <cinttypes>
#include <cstdlib>
#include "probe_util.h"
extern "C" {
#include "nanoisa/isa.h"
#include "nanoisa/nvm_format.h"
#include "nanoisa/assembler.h"
#include "nanoisa/disassembler.h"
}

static uint64_t g_eval = 0;
static std::set<uint64_t> g_nontrivial;
static std::vector<std::string> g_samples;
static std::string g_lastfail;
static std::map<std::string, uint64_t> g_classes;

static uint32_t opsize(OperandType t) {
    switch (t) { case OPERAND_U8: return 1; case OPERAND_U16: return 2; case OPERAND_U32: case OPERAND_I32: return 4;
                 case OPERAND_I64: case OPERAND_F64: return 8; default: return 0; }
}

static void set_operand(DecodedInstruction &d, int i, OperandType t, uint64_t bits) {
    d.operand_types[i] = t;
    switch (t) {
        case OPERAND_U8: d.operands[i].u8 = (uint8_t)bits; break;
        case OPERAND_U16: d.operands[i].u16 = (uint16_t)bits; break;
        case OPERAND_U32: d.operands[i].u32 = (uint32_t)bits; break;
        case OPERAND_I32: d.operands[i].i32 = (int32_t)(uint32_t)bits; break;
        case OPERAND_I64: d.operands[i].i64 = (int64_t)bits; break;
        case OPERAND_F64: memcpy(&d.operands[i].f64, &bits, 8); break;
        default: break;
    }
}
static uint64_t get_operand(const DecodedInstruction &d, int i, OperandType t) {
    uint64_t b = 0;
    switch (t) {
        case OPERAND_U8: return d.operands[i].u8;
        case OPERAND_U16: return d.operands[i].u16;
        case OPERAND_U32: return d.operands[i].u32;
        case OPERAND_I32: return (uint32_t)d.operands[i].i32;
        case OPERAND_I64: return (uint64_t)d.operands[i].i64;
        case OPERAND_F64: memcpy(&b, &d.operands[i].f64, 8); return b;
        default: return 0;
    }
}
static uint64_t mask(OperandType t) {
    uint32_t s = opsize(t);
    return s >= 8 ? ~0ULL : ((1ULL << (8 * s)) - 1);
}

static std::string desc_instr(uint8_t op, const uint64_t v[4]) {
    char b[160];
    snprintf(b, sizeof b, "instr %u 0x%" PRIx64 " 0x%" PRIx64 " 0x%" PRIx64 " 0x%" PRIx64, op, v[0], v[1], v[2], v[3]);
    return b;
}

// Returns empty string if all checks pass, else a description of the first failed check.
static std::string check_instr(uint8_t op, const uint64_t v[4]) {
    g_eval++;
    const InstructionInfo *info = isa_get_info(op);
    DecodedInstruction d;
    memset(&d, 0, sizeof d);
    d.opcode = op;
    uint8_t big[64];
    if (!info) {
        memset(big, 0xAA, sizeof big);
        if (isa_encode(&d, big, sizeof big) != 0) return "undefined opcode encoded";
        big[0] = op;
        DecodedInstruction o;
        if (isa_decode(big, sizeof big, &o) != 0) return "undefined opcode decoded";
        return "";
    }
    if (info->opcode != op) return "info->opcode differs from table index";
    if (!info->name || isa_opcode_by_name(info->name) != (int)op) return "name lookup does not return the opcode";
    if (info->operand_count > MAX_OPERANDS) return "operand_count > MAX_OPERANDS";
    d.operand_count = info->operand_count;
    uint32_t want = 1;
    bool nontrivial = false;
    for (int i = 0; i < info->operand_count; i++) {
        set_operand(d, i, info->operands[i], v[i]);
        uint32_t s = opsize(info->operands[i]);
        want += s;
        if (isa_operand_size(info->operands[i]) != s) return "isa_operand_size disagrees with documented width";
        uint64_t m = v[i] & mask(info->operands[i]);
        if (s >= 1 && (m >> (8 * (s - 1))) != 0) nontrivial = true;
    }
    if (want > ISA_MAX_INSTRUCTION_SIZE) return "instruction longer than ISA_MAX_INSTRUCTION_SIZE";
    // exact-fit heap buffer so ASan sees any write past the end
    uint8_t *exact = (uint8_t *)malloc(want);
    uint32_t n = isa_encode(&d, exact, want);
    if (n != want) { free(exact); return "encode length != 1 + operand widths"; }
    if (exact[0] != op) { free(exact); return "first encoded byte is not the opcode"; }
    // one byte too small -> refused
    if (want > 0) {
        uint8_t *small = (uint8_t *)malloc(want - 1 ? want - 1 : 1);
        uint32_t r = isa_encode(&d, small, want - 1);
        free(small);
        if (r != 0) { free(exact); return "encode into a buffer one byte too small did not fail"; }
    }
    DecodedInstruction o;
    memset(&o, 0x5A, sizeof o);
    uint32_t c = isa_decode(exact, want, &o);
    std::string err;
    if (c != want) err = "decode consumed != encoded length";
    else if (o.byte_length != want) err = "byte_length != encoded length";
    else if (o.opcode != op) err = "decoded opcode differs";
    else if (o.operand_count != info->operand_count) err = "decoded operand_count differs";
    else {
        for (int i = 0; i < info->operand_count && err.empty(); i++) {
            if (o.operand_types[i] != info->operands[i]) err = "decoded operand type differs";
            else if (get_operand(o, i, info->operands[i]) != (v[i] & mask(info->operands[i])))
                err = "decoded operand value differs (slot " + std::to_string(i) + ")";
        }
    }
    if (err.empty()) {
        uint8_t re[64];
        uint32_t rn = isa_encode(&o, re, sizeof re);
        if (rn != want || memcmp(re, exact, want) != 0) err = "re-encoding the decoded instruction gives different bytes";
    }
    // every truncation is refused (exact heap copies: ASan flags any over-read)
    for (uint32_t len = 0; len < want && err.empty(); len++) {
        uint8_t *t = (uint8_t *)malloc(len ? len : 1);
        memcpy(t, exact, len);
        DecodedInstruction x;
        if (isa_decode(t, len, &x) != 0) err = "truncated instruction (len " + std::to_string(len) + ") decoded";
        free(t);
    }
    // trailing bytes do not change the result
    if (err.empty()) {
        memset(big, 0xEE, sizeof big);
        memcpy(big, exact, want);
        DecodedInstruction x;
        if (isa_decode(big, sizeof big, &x) != want) err = "decode with trailing bytes consumed a different length";
    }
    if (err.empty() && nontrivial) g_nontrivial.insert(fnv(exact, want));
    if (err.empty() && g_samples.size() < 4 && nontrivial && (g_eval % 977) == 1)
        g_samples.push_back(std::string(info->name) + " " + hex(exact, want));
    free(exact);
    return err;
}

// decode -> encode direction on arbitrary bytes
static std::string check_bytes(const std::vector<uint8_t> &b) {
    g_eval++;
    if (b.empty()) { DecodedInstruction o; return isa_decode(b.data(), 0, &o) == 0 ? "" : "empty buffer decoded"; }
    uint8_t *heap = (uint8_t *)malloc(b.size());
    memcpy(heap, b.data(), b.size());
    DecodedInstruction o;
    uint32_t n = isa_decode(heap, b.size(), &o);
    const InstructionInfo *info = isa_get_info(b[0]);
    std::string err;
    if (n == 0) {
        if (info) {
            uint32_t want = 1;
            for (int i = 0; i < info->operand_count; i++) want += opsize(info->operands[i]);
            if (want <= b.size()) err = "complete, defined instruction refused";
            g_classes["bytes_truncated"]++;
        } else g_classes["bytes_undefined_opcode"]++;
    } else {
        if (!info) err = "undefined opcode decoded";
        else if (n > b.size()) err = "decode consumed more than the buffer";
        else {
            uint8_t re[64];
            uint32_t rn = isa_encode(&o, re, sizeof re);
            if (rn != n || memcmp(re, heap, n) != 0) err = "encode(decode(b)) != b[0..n)";
            else { g_classes["bytes_roundtrip"]++; if (n > 1) g_nontrivial.insert(fnv(heap, n)); }
        }
    }
    free(heap);
    return err;
}

static const uint64_t BOUND64[] = {0, 1, 0x7F, 0x80, 0xFF, 0x100, 0x7FFF, 0x8000, 0xFFFF, 0x10000, 0x7FFFFFFF, 0x80000000ULL,
    0xFFFFFFFFULL, 0x100000000ULL, 0x7FFFFFFFFFFFFFFFULL, 0x8000000000000000ULL, 0xFFFFFFFFFFFFFFFFULL,
    0x0102030405060708ULL, 0xF1E2D3C4B5A69788ULL,
    // doubles: -0.0, +inf, -inf, qNaN, sNaN with payload, -qNaN payload, denormal min, denormal max, DBL_MAX, 1.0
    0x8000000000000000ULL, 0x7FF0000000000000ULL, 0xFFF0000000000000ULL, 0x7FF8000000000000ULL, 0x7FF0000000000001ULL,
    0xFFF8DEADBEEF0001ULL, 0x0000000000000001ULL, 0x000FFFFFFFFFFFFFULL, 0x7FEFFFFFFFFFFFFFULL, 0x3FF0000000000000ULL};
static const int NB = sizeof BOUND64 / sizeof BOUND64[0];

static int fails = 0;
static void fail(const std::string &what, const std::string &replay) {
    printf("FAIL %s | %s\n", what.c_str(), replay.c_str());
    fails++;
}

static int mode_enc(int random_per_op) {
    // (a) exhaustive: all 256 opcode bytes x cross product of boundary patterns per slot
    for (int op = 0; op < 256; op++) {
        const InstructionInfo *info = isa_get_info((uint8_t)op);
        int nops = info ? info->operand_count : 0;
        if (op >= OP_COUNT && info) fail("opcode byte >= OP_COUNT has table entry", desc_instr((uint8_t)op, (const uint64_t[4]){0, 0, 0, 0}));
        int idx[4] = {0, 0, 0, 0};
        uint64_t total = 1;
        for (int i = 0; i < nops; i++) total *= NB;
        for (uint64_t k = 0; k < total; k++) {
            uint64_t kk = k;
            uint64_t v[4] = {0, 0, 0, 0};
            for (int i = 0; i < nops; i++) { idx[i] = (int)(kk % NB); kk /= NB; v[i] = BOUND64[idx[i]]; }
            std::string e = check_instr((uint8_t)op, v);
            if (!e.empty()) { fail(e, desc_instr((uint8_t)op, v)); break; }
        }
        g_classes[info ? "grid_defined_opcodes" : "grid_undefined_opcodes"]++;
    }
    uint64_t grid = g_eval;
    // (b) random operand tuples per defined opcode, (c) random byte strings
    bool ok1 = rc::check("decode(encode(i)) == i for random operands", [&]() {
        int op = *rc::gen::resize(300, rc::gen::inRange(0, 256));
        uint64_t v[4];
        for (int i = 0; i < 4; i++) v[i] = *rc::gen::arbitrary<uint64_t>();
        std::string e = check_instr((uint8_t)op, v);
        if (!e.empty()) g_lastfail = e + " | " + desc_instr((uint8_t)op, v);
        RC_ASSERT(e.empty());
    });
    if (!ok1) { printf("FAIL %s\n", g_lastfail.c_str()); fails++; }
    (void)random_per_op;
    bool ok2 = rc::check("encode(decode(b)) == b prefix for random bytes", [&]() {
        auto len = *rc::gen::resize(300, rc::gen::inRange<size_t>(1, 17));
        std::vector<uint8_t> b = *rc::gen::container<std::vector<uint8_t>>(len, rc::gen::arbitrary<uint8_t>());
        // bias the first byte toward defined opcodes half of the time
        if (*rc::gen::arbitrary<bool>()) {
            int op = *rc::gen::resize(300, rc::gen::inRange(0, (int)OP_COUNT));
            b[0] = (uint8_t)op;
        }
        std::string e = check_bytes(b);
        if (!e.empty()) g_lastfail = e + " | bytes " + hex(b.data(), b.size());
        RC_ASSERT(e.empty());
    });
    if (!ok2) { printf("FAIL %s\n", g_lastfail.c_str()); fails++; }
    printf("SUMMARY {\"evaluations\": %" PRIu64 ", \"grid_cases\": %" PRIu64 ", \"distinct_nontrivial\": %zu, \"samples\": [",
           g_eval, grid, g_nontrivial.size());
    for (size_t i = 0; i < g_samples.size(); i++) printf("%s%s", i ? ", " : "", jstr(g_samples[i]).c_str());
    printf("], \"classes\": {");
    bool first = true;
    for (auto &kv : g_classes) { printf("%s%s: %" PRIu64, first ? "" : ", ", jstr(kv.first).c_str(), kv.second); first = false; }
    printf("}}\n");
    return fails ? 1 : 0;
}

// ---------------------------------------------------------------------------- asm round trip
static std::string asm_roundtrip(const char *path, std::string &cls) {
    std::vector<uint8_t> data;
    if (!read_file(path, data)) return "cannot read file";
    NvmModule *m = nvm_deserialize(data.data(), (uint32_t)data.size());
    if (!m) { cls = "not_a_module"; return ""; }
    char *text = disasm_module(m);
    if (!text) { nvm_module_free(m); return "disasm_module returned NULL"; }
    AsmResult res;
    NvmModule *m2 = asm_assemble(text, &res);
    std::string err;
    if (!m2) {
        char b[400];
        snprintf(b, sizeof b, "assembling the disassembly failed at line %u: %s", res.line, res.message);
        err = b;
    } else {
        if (m2->string_count != m->string_count) err = "string pool size differs (" + std::to_string(m->string_count) + " -> " + std::to_string(m2->string_count) + ")";
        for (uint32_t i = 0; err.empty() && i < m->string_count; i++)
            if (m->string_lengths[i] != m2->string_lengths[i] || memcmp(m->strings[i], m2->strings[i], m->string_lengths[i]) != 0)
                err = "string " + std::to_string(i) + " differs";
        if (err.empty() && m2->function_count != m->function_count) err = "function count differs";
        for (uint32_t i = 0; err.empty() && i < m->function_count; i++) {
            const NvmFunctionEntry &a = m->functions[i], &b = m2->functions[i];
            if (a.name_idx != b.name_idx || a.arity != b.arity || a.local_count != b.local_count || a.upvalue_count != b.upvalue_count)
                err = "function table entry " + std::to_string(i) + " differs";
            else if (a.code_length != b.code_length) err = "code length of function " + std::to_string(i) + " differs";
            else if ((uint64_t)a.code_offset + a.code_length <= m->code_size && (uint64_t)b.code_offset + b.code_length <= m2->code_size &&
                     memcmp(m->code + a.code_offset, m2->code + b.code_offset, a.code_length) != 0)
                err = "code bytes of function " + std::to_string(i) + " differ";
        }
        // classification: forward and backward jumps present?
        bool fwd = false, back = false;
        for (uint32_t i = 0; i < m->function_count; i++) {
            const NvmFunctionEntry &a = m->functions[i];
            if ((uint64_t)a.code_offset + a.code_length > m->code_size) continue;
            uint32_t pos = 0;
            while (pos < a.code_length) {
                DecodedInstruction d;
                uint32_t c = isa_decode(m->code + a.code_offset + pos, a.code_length - pos, &d);
                if (!c) break;
                for (int k = 0; k < d.operand_count; k++)
                    if (d.operand_types[k] == OPERAND_I32) { if (d.operands[k].i32 < 0) back = true; else fwd = true; }
                pos += c;
            }
        }
        cls = (fwd && back) ? "fwd_and_back_jumps" : fwd ? "fwd_jumps_only" : back ? "back_jumps_only" : "no_jumps";
        nvm_module_free(m2);
    }
    free(text);
    nvm_module_free(m);
    return err;
}

int main(int argc, char **argv) {
    if (argc < 2) return 2;
    std::string mode = argv[1];
    if (mode == "enc") return mode_enc(argc > 2 ? atoi(argv[2]) : 200);
    if (mode == "instr" && argc >= 7) {
        uint64_t v[4];
        for (int i = 0; i < 4; i++) v[i] = strtoull(argv[3 + i], nullptr, 0);
        std::string e = check_instr((uint8_t)strtoul(argv[2], nullptr, 0), v);
        if (!e.empty()) { printf("FAIL %s\n", e.c_str()); return 1; }
        printf("OK\n");
        return 0;
    }
    if (mode == "bytes" && argc >= 3) {
        std::string e = check_bytes(unhex(argv[2]));
        if (!e.empty()) { printf("FAIL %s\n", e.c_str()); return 1; }
        printf("OK\n");
        return 0;
    }
    if (mode == "dis" && argc >= 3) {
        std::vector<uint8_t> data;
        if (!read_file(argv[2], data)) return 2;
        NvmModule *m = nvm_deserialize(data.data(), (uint32_t)data.size());
        if (!m) { printf("not a module\n"); return 1; }
        char *t = disasm_module(m);
        fputs(t ? t : "<null>", stdout);
        free(t);
        nvm_module_free(m);
        return 0;
    }
    if (mode == "asm") {
        int bad = 0;
        for (int i = 2; i < argc; i++) {
            std::string cls = "?";
            std::string e = asm_roundtrip(argv[i], cls);
            if (!e.empty()) { printf("FAIL %s | %s\n", e.c_str(), argv[i]); bad++; }
            else printf("OK %s | %s\n", cls.c_str(), argv[i]);
        }
        return bad ? 1 : 0;
    }
    return 2;
}
