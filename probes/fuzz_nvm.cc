// C13 libFuzzer target: loader -> verifier -> VM (under an instruction budget) on hostile bytecode.
// Input decoding (first byte selects the mode):
//   mode A (even): the rest is a raw .nvm image; for 7 of 8 inputs the CRC is recomputed so that
//                  hostile-but-well-checksummed files are the norm
//   mode B (odd):  structure-aware: a module is built through the public nvm_* API from the bytes
//                  (strings, functions, instructions from a weighted alphabet with boundary operands), serialized,
//                  and optionally patched at a chosen table offset with a boundary value, CRC recomputed
// Oracle: deserialize returns; verify returns; accepted modules without imports / OP_CALL_EXTERN are executed with
// fuel 200 000 and output to /dev/null; the result is VM_OK or an error code.  ASan/UBSan report memory errors and
// undefined arithmetic; a decode / invalid-opcode error at an instruction boundary of the verifier's own linear walk
// of the current function is a violation ("the verifier accepted what the VM cannot decode").
#include <fuzzer/FuzzedDataProvider.h>
#include <cstdint>
#include <cstdio>
#include <cstdlib>
#include <cstring>
#include <vector>
#include <set>
extern "C" {
#include "nanovm/vm.h"
#include "nanoisa/verifier.h"
#include "nanoisa/isa.h"
#include "nanoisa/nvm_format.h"
extern long long nanolang_verif_fuel;
int g_argc = 0;
char **g_argv = nullptr;
}

static FILE *g_null = nullptr;
static unsigned long g_stats[8];  // 0 total, 1 crc ok+header ok (loaded), 2 verified, 3 executed, 4 executed >= 10 instr

static void put32(uint8_t *p, uint32_t v) { p[0] = v; p[1] = v >> 8; p[2] = v >> 16; p[3] = v >> 24; }

static const uint8_t ALPHABET[] = {
    OP_PUSH_I64, OP_PUSH_I64, OP_PUSH_BOOL, OP_PUSH_STR, OP_PUSH_VOID, OP_PUSH_F64, OP_DUP, OP_POP, OP_SWAP, OP_ROT3,
    OP_LOAD_LOCAL, OP_STORE_LOCAL, OP_LOAD_GLOBAL, OP_STORE_GLOBAL, OP_LOAD_UPVALUE, OP_STORE_UPVALUE,
    OP_ADD, OP_SUB, OP_MUL, OP_DIV, OP_MOD, OP_NEG, OP_EQ, OP_NE, OP_LT, OP_LE, OP_GT, OP_GE, OP_AND, OP_OR, OP_NOT,
    OP_JMP, OP_JMP_TRUE, OP_JMP_FALSE, OP_CALL, OP_CALL_INDIRECT, OP_RET, OP_CALL_MODULE,
    OP_STR_LEN, OP_STR_CONCAT, OP_STR_SUBSTR, OP_STR_CONTAINS, OP_STR_EQ, OP_STR_CHAR_AT, OP_STR_FROM_INT, OP_STR_FROM_FLOAT,
    OP_ARR_NEW, OP_ARR_PUSH, OP_ARR_POP, OP_ARR_GET, OP_ARR_SET, OP_ARR_LEN, OP_ARR_SLICE, OP_ARR_REMOVE, OP_ARR_LITERAL,
    OP_STRUCT_NEW, OP_STRUCT_GET, OP_STRUCT_SET, OP_STRUCT_LITERAL, OP_UNION_CONSTRUCT, OP_UNION_TAG, OP_UNION_FIELD,
    OP_MATCH_TAG, OP_ENUM_VAL, OP_TUPLE_NEW, OP_TUPLE_GET, OP_HM_NEW, OP_HM_GET, OP_HM_SET, OP_HM_HAS, OP_HM_DELETE,
    OP_HM_KEYS, OP_HM_VALUES, OP_HM_LEN, OP_GC_RETAIN, OP_GC_RELEASE, OP_GC_SCOPE_ENTER, OP_GC_SCOPE_EXIT,
    OP_CAST_INT, OP_CAST_FLOAT, OP_CAST_BOOL, OP_CAST_STRING, OP_TYPE_CHECK, OP_CLOSURE_NEW, OP_CLOSURE_CALL,
    OP_PRINT, OP_ASSERT, OP_DEBUG_LINE, OP_HALT, OP_PRINTLN, OP_OPAQUE_NULL, OP_OPAQUE_VALID, OP_NOP};

static const int64_t BOUNDS[] = {0, 1, 2, 3, -1, -2, 7, 255, 256, 65535, 65536, 0x7fffffffLL, 0x80000000LL, 0xffffffffLL, 0x100000000LL,
                                 INT64_MAX, INT64_MIN, INT64_MIN + 1, 1024, 4095, 4096};

static int64_t pick_val(FuzzedDataProvider &fdp) {
    if (fdp.ConsumeBool()) return BOUNDS[fdp.ConsumeIntegralInRange<size_t>(0, sizeof BOUNDS / sizeof BOUNDS[0] - 1)];
    return fdp.ConsumeIntegralInRange<int64_t>(-20, 40);
}

static void emit(std::vector<uint8_t> &code, uint8_t op, int64_t a = 0, int64_t b = 0, int64_t c = 0) {
    DecodedInstruction d;
    memset(&d, 0, sizeof d);
    d.opcode = op;
    const InstructionInfo *info = isa_get_info(op);
    if (!info) return;
    d.operand_count = info->operand_count;
    int64_t v[3] = {a, b, c};
    for (int k = 0; k < info->operand_count && k < 3; k++) {
        switch (info->operands[k]) {
            case OPERAND_U8: d.operands[k].u8 = (uint8_t)v[k]; break;
            case OPERAND_U16: d.operands[k].u16 = (uint16_t)v[k]; break;
            case OPERAND_U32: d.operands[k].u32 = (uint32_t)v[k]; break;
            case OPERAND_I32: d.operands[k].i32 = (int32_t)v[k]; break;
            case OPERAND_I64: d.operands[k].i64 = v[k]; break;
            case OPERAND_F64: d.operands[k].f64 = (double)v[k]; break;
            default: break;
        }
    }
    uint8_t buf[ISA_MAX_INSTRUCTION_SIZE];
    uint32_t n = isa_encode(&d, buf, sizeof buf);
    code.insert(code.end(), buf, buf + n);
}

// Shapes no compiler output has but any verifier-accepted module may build: containers that (indirectly) contain
// themselves, then consumed by the recursive consumers (print, string conversion, comparison, release).
static void emit_idiom(std::vector<uint8_t> &code, FuzzedDataProvider &fdp) {
    int wrap = fdp.ConsumeIntegralInRange<int>(0, 5);
    emit(code, OP_ARR_NEW, TAG_ARRAY);
    emit(code, OP_DUP);
    emit(code, OP_DUP);
    switch (wrap) {                       // what stands between the array and itself
        case 1: emit(code, OP_UNION_CONSTRUCT, 0, 0, 1); break;
        case 2: emit(code, OP_TUPLE_NEW, 1); break;
        case 3: emit(code, OP_STRUCT_LITERAL, 0, 1); break;
        case 4: emit(code, OP_TUPLE_NEW, 1); emit(code, OP_UNION_CONSTRUCT, 0, 1, 1); break;
        case 5: emit(code, OP_CLOSURE_NEW, 0, 1); break;
        default: break;
    }
    emit(code, OP_ARR_PUSH);
    switch (fdp.ConsumeIntegralInRange<int>(0, 4)) {
        case 0: emit(code, OP_PRINTLN); break;
        case 1: emit(code, OP_CAST_STRING); emit(code, OP_POP); break;
        case 2: emit(code, OP_DUP); emit(code, OP_EQ); emit(code, OP_POP); break;
        case 3: emit(code, OP_PRINT); break;
        default: emit(code, OP_POP); break;
    }
}

static std::vector<uint8_t> build_structured(FuzzedDataProvider &fdp) {
    NvmModule *m = nvm_module_new();
    int nstr = fdp.ConsumeIntegralInRange<int>(0, 6);
    for (int i = 0; i < nstr; i++) {
        std::string s = fdp.ConsumeRandomLengthString(12);
        nvm_add_string(m, s.data(), (uint32_t)s.size());
    }
    uint32_t name_main = nvm_add_string(m, "main", 4);
    int nfn = fdp.ConsumeIntegralInRange<int>(1, 4);
    for (int f = 0; f < nfn; f++) {
        std::vector<uint8_t> code;
        int ninstr = fdp.ConsumeIntegralInRange<int>(0, 40);
        for (int i = 0; i < ninstr; i++) {
            if (fdp.ConsumeIntegralInRange<int>(0, 15) == 0) { emit_idiom(code, fdp); continue; }
            DecodedInstruction d;
            memset(&d, 0, sizeof d);
            d.opcode = ALPHABET[fdp.ConsumeIntegralInRange<size_t>(0, sizeof ALPHABET - 1)];
            const InstructionInfo *info = isa_get_info(d.opcode);
            if (!info) continue;
            d.operand_count = info->operand_count;
            for (int k = 0; k < info->operand_count; k++) {
                int64_t v = pick_val(fdp);
                switch (info->operands[k]) {
                    case OPERAND_U8: d.operands[k].u8 = (uint8_t)v; break;
                    case OPERAND_U16: d.operands[k].u16 = (uint16_t)v; break;
                    case OPERAND_U32: d.operands[k].u32 = (uint32_t)v; break;
                    case OPERAND_I32: d.operands[k].i32 = (int32_t)v; break;
                    case OPERAND_I64: d.operands[k].i64 = v; break;
                    case OPERAND_F64: d.operands[k].f64 = (double)v; break;
                    default: break;
                }
            }
            uint8_t buf[ISA_MAX_INSTRUCTION_SIZE];
            uint32_t n = isa_encode(&d, buf, sizeof buf);
            code.insert(code.end(), buf, buf + n);
        }
        if (fdp.ConsumeBool()) code.push_back(OP_RET);
        NvmFunctionEntry fn;
        memset(&fn, 0, sizeof fn);
        fn.name_idx = f == 0 ? name_main : fdp.ConsumeIntegralInRange<uint32_t>(0, 8);
        fn.arity = (uint16_t)fdp.ConsumeIntegralInRange<int>(0, 3);
        fn.local_count = (uint16_t)(fn.arity + fdp.ConsumeIntegralInRange<int>(0, 5));
        fn.upvalue_count = (uint16_t)fdp.ConsumeIntegralInRange<int>(0, 1);
        static const uint8_t none[1] = {0};
        fn.code_offset = nvm_append_code(m, code.empty() ? none : code.data(), (uint32_t)code.size());
        fn.code_length = (uint32_t)code.size();
        nvm_add_function(m, &fn);
    }
    // table sizes around the growth steps of the loader's own arrays (it re-grows them independently of nvm_add_*)
    static const int COUNTS[] = {0, 0, 0, 0, 1, 2, 7, 8, 9, 15, 16, 17, 31, 32, 33, 34, 63, 64, 65, 100, 127, 128, 129, 255, 256, 257};
    const size_t NCOUNTS = sizeof COUNTS / sizeof COUNTS[0];
    int nimp = COUNTS[fdp.ConsumeIntegralInRange<size_t>(0, NCOUNTS - 1)];
    for (int i = 0; i < nimp; i++) {
        uint8_t ptypes[4] = {TAG_INT, TAG_STRING, TAG_FLOAT, TAG_BOOL};
        nvm_add_import(m, name_main, name_main, (uint16_t)(i % 4), (uint8_t)(i % 2 ? TAG_INT : TAG_VOID), ptypes);
    }
    int xstr = COUNTS[fdp.ConsumeIntegralInRange<size_t>(0, NCOUNTS - 1)];
    for (int i = 0; i < xstr; i++) {
        char b[16];
        int n = snprintf(b, sizeof b, "s%d", i);
        nvm_add_string(m, b, (uint32_t)n);
    }
    int xfn = COUNTS[fdp.ConsumeIntegralInRange<size_t>(0, NCOUNTS - 1)];
    for (int i = 0; i < xfn; i++) {
        static const uint8_t ret1[1] = {OP_RET};
        NvmFunctionEntry fn;
        memset(&fn, 0, sizeof fn);
        fn.name_idx = name_main;
        fn.code_offset = nvm_append_code(m, ret1, 1);
        fn.code_length = 1;
        nvm_add_function(m, &fn);
    }
    int xdbg = COUNTS[fdp.ConsumeIntegralInRange<size_t>(0, NCOUNTS - 1)];
    for (int i = 0; i < xdbg; i++) nvm_add_debug_entry(m, (uint32_t)i, (uint32_t)(i + 1));
    m->header.flags = NVM_FLAG_HAS_MAIN;
    m->header.entry_point = fdp.ConsumeIntegralInRange<uint32_t>(0, 1) ? 0 : fdp.ConsumeIntegralInRange<uint32_t>(0, 5);
    uint32_t size = 0;
    uint8_t *img = nvm_serialize(m, &size);
    nvm_module_free(m);
    std::vector<uint8_t> out;
    if (!img) return out;
    out.assign(img, img + size);
    free(img);
    // patch table / directory / header fields with boundary values
    int npatch = fdp.ConsumeIntegralInRange<int>(0, 3);
    for (int i = 0; i < npatch && out.size() > 36; i++) {
        size_t off = fdp.ConsumeIntegralInRange<size_t>(8, out.size() - 4);
        put32(&out[off], (uint32_t)pick_val(fdp));
    }
    put32(&out[28], nvm_crc32(out.data() + NVM_HEADER_SIZE, (uint32_t)out.size() - NVM_HEADER_SIZE));
    return out;
}

static bool has_extern_call(const NvmModule *m) {
    for (uint32_t f = 0; f < m->function_count; f++) {
        const NvmFunctionEntry &fn = m->functions[f];
        if ((uint64_t)fn.code_offset + fn.code_length > m->code_size) return true;
        uint32_t pos = 0;
        while (pos < fn.code_length) {
            DecodedInstruction d;
            uint32_t c = isa_decode(m->code + fn.code_offset + pos, fn.code_length - pos, &d);
            if (!c) break;
            if (d.opcode == OP_CALL_EXTERN || d.opcode == OP_CALL_MODULE) return true;
            pos += c;
        }
    }
    return false;
}

extern "C" int LLVMFuzzerTestOneInput(const uint8_t *data, size_t size) {
    if (!g_null) g_null = fopen("/dev/null", "w");
    g_stats[0]++;
    if (size < 2) return 0;
    std::vector<uint8_t> img;
    if (data[0] & 1) {
        FuzzedDataProvider fdp(data + 1, size - 1);
        img = build_structured(fdp);
        if (img.empty()) return 0;
    } else {
        img.assign(data + 1, data + size);
        if (img.size() >= NVM_HEADER_SIZE && (data[0] >> 1) % 8 != 0)
            put32(&img[28], nvm_crc32(img.data() + NVM_HEADER_SIZE, (uint32_t)img.size() - NVM_HEADER_SIZE));
    }
    // exact-size heap copy: reads past the end are ASan reports
    uint8_t *heap = (uint8_t *)malloc(img.size() ? img.size() : 1);
    memcpy(heap, img.data(), img.size());
    NvmModule *m = nvm_deserialize(heap, (uint32_t)img.size());
    free(heap);
    if (!m) return 0;
    g_stats[1]++;
    NvmVerifyResult vr = nvm_verify(m);
    if (!vr.ok) { nvm_module_free(m); return 0; }
    g_stats[2]++;
    if (m->import_count == 0 && !has_extern_call(m)) {
        static VmState vm;   // large (frames + globals): keep it off the stack
        vm_init(&vm, m);
        vm.output = g_null;
        nanolang_verif_fuel = 20000;
        VmResult r = vm_execute(&vm);
        long long used = 20000 - nanolang_verif_fuel;
        nanolang_verif_fuel = -1;
        g_stats[3]++;
        if (used >= 10) g_stats[4]++;
        if (r == VM_ERR_DECODE || r == VM_ERR_INVALID_OPCODE) {
            // is the faulting ip an instruction boundary of the verifier's linear walk of the current function?
            if (vm.current_fn < m->function_count) {
                const NvmFunctionEntry &fn = m->functions[vm.current_fn];
                uint32_t pos = 0;
                bool boundary = false;
                while (pos < fn.code_length) {
                    if (fn.code_offset + pos == vm.ip) { boundary = true; break; }
                    DecodedInstruction d;
                    uint32_t c = isa_decode(m->code + fn.code_offset + pos, fn.code_length - pos, &d);
                    if (!c) break;   // the verifier itself would have rejected here
                    pos += c;
                }
                if (boundary) {
                    DecodedInstruction d;
                    uint32_t c = isa_decode(m->code + vm.ip, fn.code_offset + fn.code_length - vm.ip, &d);
                    if (c != 0 && isa_get_info(d.opcode)) {
                        // decodable per the ISA table but the VM refused it on a path the verifier walked
                        fprintf(stderr, "VIOLATION-C13: verifier-accepted module: VM reports %s at a verified instruction boundary (fn %u ip %u opcode 0x%02x)\n",
                                r == VM_ERR_DECODE ? "decode error" : "invalid opcode", vm.current_fn, vm.ip, d.opcode);
                        __builtin_trap();
                    }
                }
            }
        }
        vm_destroy(&vm);
    }
    nvm_module_free(m);
    return 0;
}

extern "C" void verif_dump_stats(void) {
    fprintf(stderr, "C13STATS total=%lu loaded=%lu verified=%lu executed=%lu executed_ge10=%lu\n", g_stats[0], g_stats[1], g_stats[2], g_stats[3], g_stats[4]);
}

__attribute__((destructor)) static void dump_at_exit(void) { verif_dump_stats(); }
