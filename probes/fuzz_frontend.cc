// C09 libFuzzer target: in-process front end (tokenize -> parse_program -> process_imports -> type_check) with the
// oracle "returns" (no crash, no sanitizer report; hangs are caught by -timeout).  Global state is reset per input.
#include <cstdint>
#include <cstdio>
#include <cstdlib>
#include <cstring>
#include <string>
#include <unistd.h>
#include <fcntl.h>
extern "C" {
// prototypes from src/nanolang.h (the header itself is not valid C++)
typedef struct Token Token;
typedef struct ASTNode ASTNode;
typedef struct Environment Environment;
typedef struct ModuleList ModuleList;
Token *tokenize(const char *source, int *token_count);
void free_tokens(Token *tokens, int count);
ASTNode *parse_program(Token *tokens, int token_count);
void free_ast(ASTNode *node);
bool type_check(ASTNode *program, Environment *env);
void typecheck_set_current_file(const char *path);
Environment *create_environment(void);
void free_environment(Environment *env);
ModuleList *create_module_list(void);
void free_module_list(ModuleList *list);
bool process_imports(ASTNode *program, Environment *env, ModuleList *modules, const char *current_file);
void clear_module_cache(void);
int g_argc = 0;
char **g_argv = nullptr;
}

static bool g_quiet_done = false;

extern "C" int LLVMFuzzerTestOneInput(const uint8_t *data, size_t size) {
    if (!g_quiet_done) {
        // diagnostics go to stderr/stdout by design: silence them (the fuzzer keeps its own fd 2 copy via -close_fd_mask)
        g_quiet_done = true;
    }
    if (size > 65536) return 0;
    std::string src((const char *)data, size);
    // the front end works on NUL-terminated text: an embedded NUL ends the input like a short file would
    int token_count = 0;
    Token *tokens = tokenize(src.c_str(), &token_count);
    if (!tokens) return 0;
    ASTNode *program = parse_program(tokens, token_count);
    if (program) {
        clear_module_cache();
        Environment *env = create_environment();
        ModuleList *modules = create_module_list();
        // imports are resolved relative to a path that does not exist: module loading fails cleanly
        if (process_imports(program, env, modules, "/nonexistent/fuzz_input.nano")) {
            typecheck_set_current_file("/nonexistent/fuzz_input.nano");
            (void)type_check(program, env);
        }
        free_ast(program);
        free_environment(env);
        free_module_list(modules);
        clear_module_cache();
    }
    free_tokens(tokens, token_count);
    return 0;
}
