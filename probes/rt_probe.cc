// C20(b) probe: the native runtime's containers behave as sequences (rapidcheck, ASan/UBSan).
//   rt_probe dyn     operation histories over dyn_array for every element kind against a std::vector model
//   rt_probe gc      gc_alloc / retain / release / collect histories against a reference-count model
#include <rapidcheck.h>
#include <cinttypes>
#include <cstdlib>
#include <cmath>
#include "probe_util.h"
extern "C" {
#include "runtime/gc.h"
#include "runtime/dyn_array.h"
}

static uint64_t g_eval = 0, g_cmds = 0;
static std::set<uint64_t> g_nontrivial;
static std::map<std::string, uint64_t> g_cls;
static std::vector<std::string> g_samples;
static std::string g_last;

enum Kind { K_INT, K_U8, K_FLOAT, K_BOOL, K_STRING, K_ARRAY, K_NKINDS };
static const char *KNAME[] = {"int", "u8", "float", "bool", "string", "array"};
static ElementType etype(Kind k) {
    switch (k) { case K_INT: return ELEM_INT; case K_U8: return ELEM_U8; case K_FLOAT: return ELEM_FLOAT; case K_BOOL: return ELEM_BOOL;
                 case K_STRING: return ELEM_STRING; default: return ELEM_ARRAY; }
}
static const char *STRS[] = {"", "a", "bc", "hello", "x y z", "0123456789", "\xc3\xa9", "long string long string long string"};
static DynArray *SUBS[4];

// values are 64-bit patterns: int / u8 / bool by value, float by bits, string = index into STRS, array = index into SUBS
static void push(DynArray *a, Kind k, uint64_t v) {
    switch (k) {
        case K_INT: dyn_array_push_int(a, (int64_t)v); break;
        case K_U8: dyn_array_push_u8(a, (uint8_t)v); break;
        case K_FLOAT: { double d; memcpy(&d, &v, 8); dyn_array_push_float(a, d); break; }
        case K_BOOL: dyn_array_push_bool(a, v & 1); break;
        case K_STRING: dyn_array_push_string(a, STRS[v % 8]); break;
        default: dyn_array_push_array(a, SUBS[v % 4]); break;
    }
}
static uint64_t norm(Kind k, uint64_t v) {
    switch (k) { case K_U8: return v & 0xFF; case K_BOOL: return v & 1; case K_STRING: return v % 8; case K_ARRAY: return v % 4; default: return v; }
}
static bool same_at(DynArray *a, Kind k, int64_t i, uint64_t want) {
    switch (k) {
        case K_INT: return (uint64_t)dyn_array_get_int(a, i) == want;
        case K_U8: return dyn_array_get_u8(a, i) == (uint8_t)want;
        case K_FLOAT: { double d = dyn_array_get_float(a, i); uint64_t b; memcpy(&b, &d, 8); return b == want; }
        case K_BOOL: return dyn_array_get_bool(a, i) == (bool)(want & 1);
        case K_STRING: return dyn_array_get_string(a, i) == STRS[want % 8];
        default: return dyn_array_get_array(a, i) == SUBS[want % 4];
    }
}
static void set_at(DynArray *a, Kind k, int64_t i, uint64_t v) {
    switch (k) {
        case K_INT: dyn_array_set_int(a, i, (int64_t)v); break;
        case K_U8: dyn_array_set_u8(a, i, (uint8_t)v); break;
        case K_FLOAT: { double d; memcpy(&d, &v, 8); dyn_array_set_float(a, i, d); break; }
        case K_BOOL: dyn_array_set_bool(a, i, v & 1); break;
        case K_STRING: dyn_array_set_string(a, i, STRS[v % 8]); break;
        default: dyn_array_set_array(a, i, SUBS[v % 4]); break;
    }
}
// dyn_array.h declares dyn_array_insert_* but the runtime does not define them: not exercised
static bool can_insert(Kind) { return false; }
static void insert_at(DynArray *, Kind, int64_t, uint64_t) {}
static bool pop_ok(DynArray *a, Kind k, uint64_t want, bool expect_success) {
    bool ok = !expect_success;
    switch (k) {
        case K_INT: { int64_t r = dyn_array_pop_int(a, &ok); return ok == expect_success && (!ok || (uint64_t)r == want); }
        case K_U8: { uint8_t r = dyn_array_pop_u8(a, &ok); return ok == expect_success && (!ok || r == (uint8_t)want); }
        case K_FLOAT: { double r = dyn_array_pop_float(a, &ok); uint64_t b; memcpy(&b, &r, 8); return ok == expect_success && (!ok || b == want); }
        case K_BOOL: { bool r = dyn_array_pop_bool(a, &ok); return ok == expect_success && (!ok || r == (bool)(want & 1)); }
        case K_STRING: { const char *r = dyn_array_pop_string(a, &ok); return ok == expect_success && (!ok || r == STRS[want % 8]); }
        default: { DynArray *r = dyn_array_pop_array(a, &ok); return ok == expect_success && (!ok || r == SUBS[want % 4]); }
    }
}

static std::string full_compare(DynArray *a, Kind k, const std::vector<uint64_t> &m) {
    if (dyn_array_length(a) != (int64_t)m.size()) return "length " + std::to_string(dyn_array_length(a)) + " != model " + std::to_string(m.size());
    if (dyn_array_capacity(a) < dyn_array_length(a)) return "capacity < length";
    if (dyn_array_get_elem_type(a) != etype(k)) return "element type changed";
    for (size_t i = 0; i < m.size(); i++)
        if (!same_at(a, k, (int64_t)i, m[i])) return "element " + std::to_string(i) + " differs from the model";
    return "";
}

static int mode_dyn() {
    for (int i = 0; i < 4; i++) SUBS[i] = dyn_array_new(ELEM_INT);
    bool ok = rc::check("dyn_array behaves as a sequence", [&]() {
        Kind k = (Kind)*rc::gen::inRange(0, (int)K_NKINDS);
        int n = *rc::gen::weightedOneOf<int>({{3, rc::gen::inRange(1, 30)}, {2, rc::gen::inRange(30, 200)}});
        DynArray *a = *rc::gen::arbitrary<bool>() ? dyn_array_new(etype(k)) : dyn_array_new_with_capacity(etype(k), *rc::gen::inRange(1, 40));
        RC_ASSERT(a != nullptr);
        std::vector<uint64_t> m;
        std::string trace = std::string(KNAME[k]) + ":";
        std::string err;
        bool grew = false;
        int64_t cap0 = dyn_array_capacity(a);
        for (int step = 0; step < n && err.empty(); step++) {
            int op = *rc::gen::weightedElement<int>({{8, 0}, {3, 1}, {3, 2}, {3, 3}, {2, 4}, {2, 5}, {1, 6}, {1, 7}, {1, 8}});
            uint64_t v = *rc::gen::oneOf(rc::gen::arbitrary<uint64_t>(), rc::gen::elementOf(std::vector<uint64_t>{0, 1, 255, 256, 0x7ff8000000000000ULL, 0x8000000000000000ULL, UINT64_MAX}));
            g_cmds++;
            switch (op) {
                case 0: push(a, k, v); m.push_back(norm(k, v)); trace += "P"; break;
                case 1: {
                    bool nonempty = !m.empty();
                    uint64_t want = nonempty ? m.back() : 0;
                    if (!pop_ok(a, k, want, nonempty)) err = "pop returned the wrong element / success flag";
                    if (nonempty) m.pop_back();
                    trace += "p";
                    break;
                }
                case 2: if (!m.empty()) { size_t i = *rc::gen::inRange<size_t>(0, m.size()); if (!same_at(a, k, (int64_t)i, m[i])) err = "get differs"; trace += "g"; } break;
                case 3: if (!m.empty()) { size_t i = *rc::gen::inRange<size_t>(0, m.size()); set_at(a, k, (int64_t)i, v); m[i] = norm(k, v); trace += "s"; } break;
                case 4: if (can_insert(k)) { size_t i = *rc::gen::inRange<size_t>(0, m.size() + 1); insert_at(a, k, (int64_t)i, v); m.insert(m.begin() + (long)i, norm(k, v)); trace += "i"; } break;
                case 5: if (!m.empty()) { size_t i = *rc::gen::inRange<size_t>(0, m.size()); DynArray *r = dyn_array_remove_at(a, (int64_t)i); if (r != a) err = "remove_at returned another array"; m.erase(m.begin() + (long)i); trace += "r"; } break;
                case 6: dyn_array_clear(a); m.clear(); trace += "c"; break;
                case 7: { int64_t want = *rc::gen::inRange<int64_t>(0, 300); dyn_array_reserve(a, want); if (dyn_array_capacity(a) < want) err = "reserve did not reserve"; trace += "R"; break; }
                case 8: {
                    DynArray *c = dyn_array_clone(a);
                    if (!c) { err = "clone returned NULL"; break; }
                    std::string e2 = full_compare(c, k, m);
                    if (!e2.empty()) err = "clone: " + e2;
                    // mutate the original: the clone must not change
                    push(a, k, v); m.push_back(norm(k, v));
                    std::vector<uint64_t> before(m.begin(), m.end() - 1);
                    e2 = full_compare(c, k, before);
                    if (err.empty() && !e2.empty()) err = "clone shares storage with the original: " + e2;
                    gc_release(c);
                    trace += "C";
                    break;
                }
            }
            if (dyn_array_capacity(a) > cap0) grew = true;
            if (err.empty()) err = full_compare(a, k, m);
        }
        g_eval++;
        g_cls[std::string("kind_") + KNAME[k]]++;
        if (grew) g_cls["crossed_growth_boundary"]++;
        if (trace.size() > 20 + strlen(KNAME[k]) && grew) {
            g_nontrivial.insert(fnv(trace.data(), trace.size()));
            if (g_samples.size() < 4 && g_eval % 97 == 5) g_samples.push_back(trace.substr(0, 120));
        }
        if (!err.empty()) g_last = err + " | history " + trace;
        gc_release(a);
        RC_ASSERT(err.empty());
    });
    if (!ok) printf("FAIL %s\n", g_last.c_str());
    printf("SUMMARY {\"evaluations\": %" PRIu64 ", \"commands\": %" PRIu64 ", \"distinct_nontrivial\": %zu, \"classes\": {", g_eval, g_cmds, g_nontrivial.size());
    bool first = true;
    for (auto &kv : g_cls) { printf("%s%s: %" PRIu64, first ? "" : ", ", jstr(kv.first).c_str(), kv.second); first = false; }
    printf("}, \"samples\": [");
    for (size_t i = 0; i < g_samples.size(); i++) printf("%s%s", i ? ", " : "", jstr(g_samples[i]).c_str());
    printf("]}\n");
    return ok ? 0 : 1;
}

static int g_finalized = 0;
static void fin(void *) { g_finalized++; }

static int mode_gc() {
    gc_init();
    bool ok = rc::check("gc retain/release follows the reference-count model", [&]() {
        struct Obj { void *p; uint32_t rc; size_t size; bool opaque; };
        std::vector<Obj> live;
        int n = *rc::gen::inRange(1, 120);
        std::string trace, err;
        size_t base_objects = gc_get_stats().num_objects;
        int fin0 = g_finalized, expect_fin = 0;
        for (int step = 0; step < n && err.empty(); step++) {
            int op = *rc::gen::weightedElement<int>({{5, 0}, {4, 1}, {6, 2}, {1, 3}, {1, 4}});
            g_cmds++;
            if (op == 0 || live.empty()) {
                size_t sz = *rc::gen::elementOf(std::vector<size_t>{1, 8, 24, 100, 4096});
                bool opq = *rc::gen::inRange(0, 4) == 0;
                // the type tag must describe the object's layout: raw bytes are strings / opaque blocks, arrays come from dyn_array_new
                bool arr = !opq && *rc::gen::inRange(0, 4) == 0;
                void *p = opq ? gc_alloc_opaque(sz, fin) : arr ? (void *)dyn_array_new(ELEM_INT) : gc_alloc(sz, GC_TYPE_STRING);
                if (!p) { err = "gc_alloc returned NULL"; break; }
                if (arr) { sz = 0; for (int q = 0; q < 20; q++) dyn_array_push_int((DynArray *)p, q); }
                else memset(p, 0xAB, sz);
                live.push_back({p, 1, sz, opq});
                trace += "a";
            } else if (op == 1) {
                size_t i = *rc::gen::inRange<size_t>(0, live.size());
                gc_retain(live[i].p); live[i].rc++; trace += "+";
            } else if (op == 2) {
                size_t i = *rc::gen::inRange<size_t>(0, live.size());
                gc_release(live[i].p); live[i].rc--; trace += "-";
                if (live[i].rc == 0) { if (live[i].opaque) expect_fin++; live.erase(live.begin() + (long)i); }
            } else if (op == 3) {
                gc_collect_cycles(); trace += "G";
            } else {
                gc_release(nullptr); int dummy = 0; gc_release(&dummy);  // unmanaged pointers are ignored
                trace += "n";
            }
            for (auto &o : live) {
                if (!gc_is_managed(o.p)) { err = "a referenced object is no longer managed"; break; }
                if (gc_get_header(o.p)->ref_count != o.rc) { err = "ref_count " + std::to_string(gc_get_header(o.p)->ref_count) + " != model " + std::to_string(o.rc); break; }
                if (o.size == 0) { if (dyn_array_length((DynArray *)o.p) != 20 || dyn_array_get_int((DynArray *)o.p, 19) != 19) { err = "array contents changed"; break; } }
                else if (((unsigned char *)o.p)[0] != 0xAB || ((unsigned char *)o.p)[o.size - 1] != 0xAB) { err = "object contents changed"; break; }
            }
            if (err.empty() && gc_get_stats().num_objects != base_objects + live.size()) err = "live object count " + std::to_string(gc_get_stats().num_objects - base_objects) + " != model " + std::to_string(live.size());
            if (err.empty() && g_finalized - fin0 != expect_fin) err = "finalizer ran " + std::to_string(g_finalized - fin0) + " times, expected " + std::to_string(expect_fin);
        }
        for (auto &o : live) for (uint32_t i = 0; i < o.rc; i++) gc_release(o.p);
        g_eval++;
        if (trace.size() >= 20) g_nontrivial.insert(fnv(trace.data(), trace.size()));
        if (g_samples.size() < 3 && g_eval % 131 == 7) g_samples.push_back(trace.substr(0, 100));
        if (!err.empty()) g_last = err + " | history " + trace;
        RC_ASSERT(err.empty());
    });
    if (!ok) printf("FAIL %s\n", g_last.c_str());
    printf("SUMMARY {\"evaluations\": %" PRIu64 ", \"commands\": %" PRIu64 ", \"distinct_nontrivial\": %zu, \"classes\": {}, \"samples\": [", g_eval, g_cmds, g_nontrivial.size());
    for (size_t i = 0; i < g_samples.size(); i++) printf("%s%s", i ? ", " : "", jstr(g_samples[i]).c_str());
    printf("]}\n");
    return ok ? 0 : 1;
}

int main(int argc, char **argv) {
    if (argc < 2) return 2;
    std::string mode = argv[1];
    if (mode == "dyn") return mode_dyn();
    if (mode == "gc") return mode_gc();
    return 2;
}
