// C12 / C10(a) probe.
//   nvm_probe faults <file.nvm> <seed> <burst_patterns> <bit_stride>   enumerate faults, oracle: nvm_deserialize == NULL
//   nvm_probe apply <file.nvm> <out> <kind> <a> <b> <c>                write the damaged file (for end-to-end runs / replay)
//   nvm_probe check <file.nvm> <kind> <a> <b> <c>                      replay one fault in-process
//   nvm_probe rt                                                       rapidcheck: deserialize(serialize(m)) == m, idempotent
//   nvm_probe rtfile <file.nvm>...                                     same round trip on compiler-produced files
#include <rapidcheck.h>
#include <cinttypes>
#include <cstdlib>
#include "probe_util.h"
extern "C" {
#include "nanoisa/isa.h"
#include "nanoisa/nvm_format.h"
}

static uint64_t rng_state = 88172645463325252ULL;
static uint64_t rnd() { rng_state ^= rng_state << 13; rng_state ^= rng_state >> 7; rng_state ^= rng_state << 17; return rng_state; }

// ---------------------------------------------------------------------------- fault application
// kinds: flip a=bit | burst a=bitoffset b=len c=pattern(xor bits, bit0 = first) | trunc a=newlen
//        tail a=len b=fill(0,255,256=random seeded by c) | hdr a=byte index b=value
static bool apply_fault(const std::vector<uint8_t> &f, const std::string &kind, uint64_t a, uint64_t b, uint64_t c,
                        std::vector<uint8_t> &out) {
    out = f;
    if (kind == "flip") { if (a / 8 >= f.size()) return false; out[a / 8] ^= (uint8_t)(1u << (a % 8)); return true; }
    if (kind == "burst") {
        if (b < 1 || b > 32 || (a + b - 1) / 8 >= f.size()) return false;
        for (uint64_t i = 0; i < b; i++) if ((c >> i) & 1) { uint64_t bit = a + i; out[bit / 8] ^= (uint8_t)(1u << (bit % 8)); }
        return true;
    }
    if (kind == "trunc") { if (a >= f.size()) return false; out.resize(a); return true; }
    if (kind == "tail") {
        uint64_t s = c ? c : 1;
        for (uint64_t i = 0; i < a; i++) {
            uint8_t v = b == 0 ? 0 : b == 255 ? 0xFF : (uint8_t)((s ^= s << 13, s ^= s >> 7, s ^= s << 17, s) >> 24);
            out.push_back(v);
        }
        return true;
    }
    if (kind == "hdr") { if (a >= 8 || a >= f.size()) return false; if (out[a] == (uint8_t)b) return false; out[a] = (uint8_t)b; return true; }
    return false;
}

static uint64_t g_eval = 0, g_fail = 0;
static std::map<std::string, uint64_t> g_cls;
static std::vector<std::string> g_samples;

static bool refused(const std::vector<uint8_t> &d) {
    // exact-size heap copy: any read past the end is an ASan report
    uint8_t *h = (uint8_t *)malloc(d.size() ? d.size() : 1);
    memcpy(h, d.data(), d.size());
    NvmModule *m = nvm_deserialize(h, (uint32_t)d.size());
    free(h);
    if (m) { nvm_module_free(m); return false; }
    return true;
}

static void one(const std::vector<uint8_t> &f, const char *kind, uint64_t a, uint64_t b, uint64_t c) {
    std::vector<uint8_t> d;
    if (!apply_fault(f, kind, a, b, c, d)) return;
    g_eval++;
    g_cls[kind]++;
    if (!refused(d)) {
        g_fail++;
        if (g_fail <= 20) printf("FAIL loaded a damaged file | %s %" PRIu64 " %" PRIu64 " %" PRIu64 "\n", kind, a, b, c);
    } else if (g_samples.size() < 5 && (g_eval % 7919) == 3) {
        char s[128];
        snprintf(s, sizeof s, "%s %" PRIu64 " %" PRIu64 " 0x%" PRIx64, kind, a, b, c);
        g_samples.push_back(s);
    }
}

static int mode_faults(const char *path, uint64_t seed, int patterns, int stride) {
    std::vector<uint8_t> f;
    if (!read_file(path, f)) return 2;
    if (refused(f)) { printf("FAIL pristine file does not load | none 0 0 0\n"); return 1; }
    rng_state ^= seed * 0x9E3779B97F4A7C15ULL + 1;
    const uint64_t body0 = NVM_HEADER_SIZE * 8ULL, nbits = f.size() * 8ULL;
    // every single-bit flip of the body
    for (uint64_t bit = body0; bit < nbits; bit++) one(f, "flip", bit, 0, 0);
    // every truncation length
    for (uint64_t n = 0; n < f.size(); n++) one(f, "trunc", n, 0, 0);
    // bursts: lengths 2..32 at bit offsets (stride), first and last bit of the burst always flipped
    for (uint64_t off = body0; off < nbits; off += (uint64_t)stride) {
        for (uint64_t len = 2; len <= 32 && off + len <= nbits; len++) {
            uint64_t hi = 1ULL << (len - 1);
            uint64_t inner = len > 2 ? ((1ULL << (len - 2)) - 1) << 1 : 0;
            // fixed patterns: ends only, all ones; then sampled interiors
            one(f, "burst", off, len, hi | 1ULL);
            if (len > 2) one(f, "burst", off, len, hi | 1ULL | inner);
            for (int p = 0; p < patterns && len > 3; p++) one(f, "burst", off, len, hi | 1ULL | (rnd() & inner));
        }
    }
    // appended tails
    for (uint64_t n = 1; n <= 64; n++) { one(f, "tail", n, 0, 0); one(f, "tail", n, 255, 0); one(f, "tail", n, 256, rnd() | 1); }
    for (uint64_t n : {1024ULL, 65536ULL}) { one(f, "tail", n, 0, 0); one(f, "tail", n, 255, 0); one(f, "tail", n, 256, rnd() | 1); }
    // magic and version: all 256 values of each of the 8 bytes
    for (uint64_t i = 0; i < 8; i++) for (uint64_t v = 0; v < 256; v++) one(f, "hdr", i, v, 0);
    printf("SUMMARY {\"evaluations\": %" PRIu64 ", \"failures\": %" PRIu64 ", \"file_bytes\": %zu, \"classes\": {", g_eval, g_fail, f.size());
    bool first = true;
    for (auto &kv : g_cls) { printf("%s%s: %" PRIu64, first ? "" : ", ", jstr(kv.first).c_str(), kv.second); first = false; }
    printf("}, \"samples\": [");
    for (size_t i = 0; i < g_samples.size(); i++) printf("%s%s", i ? ", " : "", jstr(g_samples[i]).c_str());
    printf("]}\n");
    return g_fail ? 1 : 0;
}

// ---------------------------------------------------------------------------- module round trip
static std::string compare_modules(const NvmModule *a, const NvmModule *b) {
    if (a->header.flags != b->header.flags) return "flags differ";
    if (a->header.entry_point != b->header.entry_point) return "entry point differs";
    if (a->string_count != b->string_count) return "string count differs";
    for (uint32_t i = 0; i < a->string_count; i++)
        if (a->string_lengths[i] != b->string_lengths[i] || memcmp(a->strings[i], b->strings[i], a->string_lengths[i]) != 0)
            return "string " + std::to_string(i) + " differs";
    if (a->function_count != b->function_count) return "function count differs";
    for (uint32_t i = 0; i < a->function_count; i++) {
        const NvmFunctionEntry &x = a->functions[i], &y = b->functions[i];
        if (x.name_idx != y.name_idx || x.arity != y.arity || x.code_offset != y.code_offset || x.code_length != y.code_length ||
            x.local_count != y.local_count || x.upvalue_count != y.upvalue_count)
            return "function entry " + std::to_string(i) + " differs";
    }
    if (a->code_size != b->code_size || (a->code_size && memcmp(a->code, b->code, a->code_size) != 0)) return "code differs";
    if (a->debug_count != b->debug_count) return "debug count differs";
    for (uint32_t i = 0; i < a->debug_count; i++)
        if (a->debug_entries[i].bytecode_offset != b->debug_entries[i].bytecode_offset ||
            a->debug_entries[i].source_line != b->debug_entries[i].source_line) return "debug entry differs";
    if (a->import_count != b->import_count) return "import count differs";
    for (uint32_t i = 0; i < a->import_count; i++) {
        const NvmImportEntry &x = a->imports[i], &y = b->imports[i];
        if (x.module_name_idx != y.module_name_idx || x.function_name_idx != y.function_name_idx ||
            x.param_count != y.param_count || x.return_type != y.return_type) return "import entry " + std::to_string(i) + " differs";
        if (x.param_count) {
            if (!a->import_param_types[i] || !b->import_param_types[i]) return "import param table missing";
            if (memcmp(a->import_param_types[i], b->import_param_types[i], x.param_count) != 0) return "import param types differ";
        }
    }
    return "";
}

static std::string roundtrip(const NvmModule *m, bool &nontrivial) {
    uint32_t n1 = 0;
    uint8_t *b1 = nvm_serialize(m, &n1);
    if (!b1) return "serialize returned NULL";
    // exact heap copy for ASan
    uint8_t *h = (uint8_t *)malloc(n1);
    memcpy(h, b1, n1);
    NvmModule *m2 = nvm_deserialize(h, n1);
    free(h);
    if (!m2) { free(b1); return "deserialize(serialize(m)) failed"; }
    std::string e = compare_modules(m, m2);
    if (e.empty()) {
        uint32_t n2 = 0;
        uint8_t *b2 = nvm_serialize(m2, &n2);
        if (!b2) e = "second serialize returned NULL";
        else if (n2 != n1 || memcmp(b1, b2, n1) != 0) e = "serialize is not idempotent on the reloaded module";
        free(b2);
        // header consistency
        if (e.empty()) {
            uint32_t crc = nvm_crc32(b1 + NVM_HEADER_SIZE, n1 - NVM_HEADER_SIZE);
            uint32_t stored = (uint32_t)b1[28] | ((uint32_t)b1[29] << 8) | ((uint32_t)b1[30] << 16) | ((uint32_t)b1[31] << 24);
            if (crc != stored) e = "stored checksum is not the CRC of the body";
        }
    }
    int extra = (m->debug_count > 0) + (m->import_count > 0) + (m->string_count > 0) + (m->function_count > 0);
    bool has_empty = false;
    for (uint32_t i = 0; i < m->string_count; i++) if (m->string_lengths[i] == 0) has_empty = true;
    nontrivial = extra >= 2 && (has_empty || m->import_count > 0);
    nvm_module_free(m2);
    free(b1);
    return e;
}

static std::string g_last;
static int mode_rt() {
    uint64_t evals = 0;
    std::set<uint64_t> nontriv;
    std::map<std::string, uint64_t> cls;
    bool ok = rc::check("deserialize(serialize(m)) == m and serialize idempotent", [&]() {
        NvmModule *m = nvm_module_new();
        RC_ASSERT(m != nullptr);
        std::string trace;
        auto nstr = *rc::gen::weightedOneOf<int>({{1, rc::gen::just(0)}, {6, rc::gen::inRange(1, 12)}, {1, rc::gen::inRange(60, 200)}});
        int dup = 0;
        for (int i = 0; i < nstr; i++) {
            std::string s;
            int k = *rc::gen::inRange(0, 10);
            if (k == 0) s = "";
            else if (k == 1) s = std::string((size_t)*rc::gen::inRange(200, 5000), 'x');
            else if (k == 2 && i > 0) { s = std::string(m->strings[0], m->string_lengths[0]); dup++; }
            else s = *rc::gen::container<std::string>(rc::gen::inRange<char>(-128, 127));
            uint32_t before = m->string_count;
            uint32_t idx = nvm_add_string(m, s.data(), (uint32_t)s.size());
            RC_ASSERT(idx < m->string_count);
            RC_ASSERT(m->string_lengths[idx] == s.size());
            if (m->string_count == before) dup++;
        }
        auto ncode = *rc::gen::weightedOneOf<int>({{1, rc::gen::just(0)}, {5, rc::gen::inRange(1, 300)}, {1, rc::gen::inRange(4000, 70000)}});
        if (ncode) {
            std::vector<uint8_t> code((size_t)ncode);
            uint8_t seedb = *rc::gen::arbitrary<uint8_t>();
            for (int i = 0; i < ncode; i++) code[(size_t)i] = (uint8_t)(seedb + i * 131);
            int chunks = *rc::gen::inRange(1, 4);
            size_t pos = 0;
            for (int c = 0; c < chunks && pos < code.size(); c++) {
                size_t n = c == chunks - 1 ? code.size() - pos : (code.size() - pos) / 2;
                uint32_t off = nvm_append_code(m, code.data() + pos, (uint32_t)n);
                RC_ASSERT(off == pos);
                pos += n;
            }
        }
        auto nfn = *rc::gen::weightedOneOf<int>({{1, rc::gen::just(0)}, {6, rc::gen::inRange(1, 8)}, {1, rc::gen::inRange(30, 70)}});
        for (int i = 0; i < nfn; i++) {
            NvmFunctionEntry fn;
            fn.name_idx = *rc::gen::arbitrary<uint32_t>();
            fn.arity = *rc::gen::arbitrary<uint16_t>();
            fn.code_offset = *rc::gen::arbitrary<uint32_t>();
            fn.code_length = *rc::gen::arbitrary<uint32_t>();
            fn.local_count = *rc::gen::arbitrary<uint16_t>();
            fn.upvalue_count = *rc::gen::arbitrary<uint16_t>();
            RC_ASSERT(nvm_add_function(m, &fn) == (uint32_t)i);
        }
        auto nimp = *rc::gen::weightedOneOf<int>({{2, rc::gen::just(0)}, {4, rc::gen::inRange(1, 6)}, {1, rc::gen::inRange(33, 41)}});
        for (int i = 0; i < nimp; i++) {
            int pc = *rc::gen::inRange(0, 17);
            std::vector<uint8_t> pt((size_t)pc);
            for (auto &x : pt) x = *rc::gen::arbitrary<uint8_t>();
            nvm_add_import(m, *rc::gen::arbitrary<uint32_t>(), *rc::gen::arbitrary<uint32_t>(), (uint16_t)pc,
                           *rc::gen::arbitrary<uint8_t>(), pc ? pt.data() : nullptr);
        }
        auto ndbg = *rc::gen::weightedOneOf<int>({{2, rc::gen::just(0)}, {4, rc::gen::inRange(1, 20)}, {1, rc::gen::inRange(257, 400)}});
        for (int i = 0; i < ndbg; i++) nvm_add_debug_entry(m, *rc::gen::arbitrary<uint32_t>(), *rc::gen::arbitrary<uint32_t>());
        m->header.flags = *rc::gen::elementOf(std::vector<uint32_t>{0, 1, 2, 3, 4, 7, 0xFFFFFFFFu, 0x80000000u});
        m->header.entry_point = *rc::gen::elementOf(std::vector<uint32_t>{0, 1, 511, 0xFFFFFFFFu});
        bool nt = false;
        std::string e = roundtrip(m, nt);
        evals++;
        char d[200];
        snprintf(d, sizeof d, "strings=%u (dups %d) code=%u functions=%u imports=%u debug=%u flags=0x%x entry=%u",
                 m->string_count, dup, m->code_size, m->function_count, m->import_count, m->debug_count, m->header.flags, m->header.entry_point);
        if (nt) {
            uint32_t n = 0;
            uint8_t *b = nvm_serialize(m, &n);
            if (b) { nontriv.insert(fnv(b, n)); free(b); }
            cls["nontrivial"]++;
            if (g_samples.size() < 4 && evals % 53 == 7) g_samples.push_back(d);
        }
        if (dup) cls["has_duplicate_add"]++;
        if (m->import_count) cls["has_imports"]++;
        if (m->debug_count) cls["has_debug"]++;
        if (m->code_size > 4096) cls["code_over_initial_capacity"]++;
        if (m->string_count > 64) cls["strings_over_initial_capacity"]++;
        if (!e.empty()) g_last = e + " | " + d;
        nvm_module_free(m);
        RC_ASSERT(e.empty());
    });
    if (!ok) printf("FAIL %s\n", g_last.c_str());
    printf("SUMMARY {\"evaluations\": %" PRIu64 ", \"distinct_nontrivial\": %zu, \"classes\": {", evals, nontriv.size());
    bool first = true;
    for (auto &kv : cls) { printf("%s%s: %" PRIu64, first ? "" : ", ", jstr(kv.first).c_str(), kv.second); first = false; }
    printf("}, \"samples\": [");
    for (size_t i = 0; i < g_samples.size(); i++) printf("%s%s", i ? ", " : "", jstr(g_samples[i]).c_str());
    printf("]}\n");
    return ok ? 0 : 1;
}

int main(int argc, char **argv) {
    if (argc < 2) return 2;
    std::string mode = argv[1];
    if (mode == "faults" && argc >= 6) return mode_faults(argv[2], strtoull(argv[3], 0, 0), atoi(argv[4]), atoi(argv[5]));
    if ((mode == "apply" && argc >= 8) || (mode == "check" && argc >= 7)) {
        std::vector<uint8_t> f, d;
        if (!read_file(argv[2], f)) return 2;
        int k = mode == "apply" ? 4 : 3;
        if (!apply_fault(f, argv[k], strtoull(argv[k + 1], 0, 0), strtoull(argv[k + 2], 0, 0), strtoull(argv[k + 3], 0, 0), d)) {
            printf("fault does not apply\n");
            return 3;
        }
        if (mode == "apply") {
            FILE *o = fopen(argv[3], "wb");
            if (!o) return 2;
            fwrite(d.data(), 1, d.size(), o);
            fclose(o);
            return 0;
        }
        if (!refused(d)) { printf("FAIL loaded a damaged file\n"); return 1; }
        // the enumeration loads the intact file first and then every damaged image in one process (as the daemon and the
        // co-process do with successive requests): reproduce that history too
        if (!refused(f) && !refused(d)) { printf("FAIL loaded a damaged file after the intact file had been loaded by the same process\n"); return 1; }
        printf("OK refused\n");
        return 0;
    }
    if (mode == "rt") return mode_rt();
    if (mode == "rtfile") {
        int bad = 0;
        for (int i = 2; i < argc; i++) {
            std::vector<uint8_t> f;
            if (!read_file(argv[i], f)) { printf("FAIL cannot read | %s\n", argv[i]); bad++; continue; }
            NvmModule *m = nvm_deserialize(f.data(), (uint32_t)f.size());
            if (!m) { printf("FAIL compiler-produced file does not load | %s\n", argv[i]); bad++; continue; }
            bool nt = false;
            std::string e = roundtrip(m, nt);
            // the file itself must be what serialize produces for the loaded module
            if (e.empty()) {
                uint32_t n = 0;
                uint8_t *b = nvm_serialize(m, &n);
                if (!b || n != f.size() || memcmp(b, f.data(), n) != 0) e = "serialize(load(file)) differs from the file";
                free(b);
            }
            if (!e.empty()) { printf("FAIL %s | %s\n", e.c_str(), argv[i]); bad++; }
            else printf("OK %s imports=%u strings=%u functions=%u | %s\n", nt ? "nontrivial" : "plain", m->import_count, m->string_count, m->function_count, argv[i]);
            nvm_module_free(m);
        }
        return bad ? 1 : 0;
    }
    return 2;
}
