// Shared helpers for probes: JSON-ish output, file reading, hex.
#pragma once
#include <cstdint>
#include <cstdio>
#include <cstring>
#include <string>
#include <vector>
#include <set>
#include <map>

// symbols the repository's tools define in their own main.c (each probe is a single TU)
extern "C" { int g_argc = 0; char **g_argv = nullptr; }

static inline std::string hex(const uint8_t *p, size_t n) {
    static const char *d = "0123456789abcdef";
    std::string s;
    for (size_t i = 0; i < n; i++) { s.push_back(d[p[i] >> 4]); s.push_back(d[p[i] & 15]); }
    return s;
}
static inline std::vector<uint8_t> unhex(const std::string &s) {
    std::vector<uint8_t> v;
    auto val = [](char c) { return c <= '9' ? c - '0' : (c | 32) - 'a' + 10; };
    for (size_t i = 0; i + 1 < s.size(); i += 2) v.push_back((uint8_t)(val(s[i]) * 16 + val(s[i + 1])));
    return v;
}
static inline bool read_file(const char *path, std::vector<uint8_t> &out) {
    FILE *f = fopen(path, "rb");
    if (!f) return false;
    out.clear();
    uint8_t buf[65536];
    size_t n;
    while ((n = fread(buf, 1, sizeof buf, f)) > 0) out.insert(out.end(), buf, buf + n);
    fclose(f);
    return true;
}
static inline std::string jstr(const std::string &s) {
    std::string o = "\"";
    for (unsigned char c : s) {
        if (c == '"' || c == '\\') { o.push_back('\\'); o.push_back((char)c); }
        else if (c < 0x20 || c >= 0x7f) { char b[8]; snprintf(b, sizeof b, "\\u%04x", c); o += b; }
        else o.push_back((char)c);
    }
    return o + "\"";
}
// 64-bit FNV for distinct counting
static inline uint64_t fnv(const void *p, size_t n, uint64_t h = 1469598103934665603ULL) {
    const uint8_t *b = (const uint8_t *)p;
    for (size_t i = 0; i < n; i++) { h ^= b[i]; h *= 1099511628211ULL; }
    return h;
}
