// C15(a) probe: NanoValue <-> co-process wire format round trip (rapidcheck, ASan/UBSan).
//   cop_probe rt      deserialize(serialize(v)) == v deeply and bitwise, consumed == written; too-small buffers -> 0
// C16 probe: the decoder on hostile bytes.
//   cop_probe hostile serialized values with length / count / tag fields overwritten by boundary values, truncated,
//                     spliced, deeply nested, or plain random bytes: cop_deserialize_value returns 0 or a count
//                     <= buffer size, touching nothing outside the exact-size heap buffer (ASan) and without
//                     exhausting the stack
#include <rapidcheck.h>
#include <cinttypes>
#include <cstdlib>
#include "probe_util.h"
extern "C" {
#include "nanovm/cop_protocol.h"
#include "nanovm/heap.h"
#include "nanovm/value.h"
}

static uint64_t g_eval = 0;
static std::set<uint64_t> g_nontrivial;
static std::map<std::string, uint64_t> g_cls;
static std::vector<std::string> g_samples;
static std::string g_last;

struct Spec {  // generator-side description (independent of the VM heap)
    uint8_t tag;
    uint64_t bits = 0;
    std::string str;
    uint8_t etype = 0;
    std::vector<Spec> elems;
};

static rc::Gen<Spec> genSpec(int depth) {
    return rc::gen::exec([depth]() {
        Spec s;
        int k = *rc::gen::resize(100, rc::gen::inRange(0, depth > 0 ? 11 : 7));
        if (k == 0) { s.tag = TAG_INT; s.bits = *rc::gen::oneOf(rc::gen::arbitrary<uint64_t>(), rc::gen::elementOf(std::vector<uint64_t>{0, 1, UINT64_MAX, 0x8000000000000000ULL, 0x7fffffffffffffffULL, 255, 256})); }
        else if (k == 1) { s.tag = TAG_FLOAT; s.bits = *rc::gen::oneOf(rc::gen::arbitrary<uint64_t>(), rc::gen::elementOf(std::vector<uint64_t>{0x7ff8000000000001ULL, 0x7ff0000000000000ULL, 0xfff0000000000000ULL, 0x8000000000000000ULL, 0x7ff0000000000001ULL, 1, 0})); }
        else if (k == 2) { s.tag = TAG_BOOL; s.bits = *rc::gen::inRange(0, 2); }
        else if (k == 3 || k == 4) {
            s.tag = TAG_STRING;
            int lk = *rc::gen::inRange(0, 12);
            size_t len = lk == 0 ? 0 : lk == 1 ? *rc::gen::elementOf(std::vector<size_t>{255, 256, 8191, 8192, 8193, 65535, 65536, 70000}) : *rc::gen::inRange<size_t>(1, 40);
            s.str.resize(len);
            uint8_t seedb = *rc::gen::arbitrary<uint8_t>();
            for (size_t i = 0; i < len; i++) { uint8_t c = (uint8_t)(seedb + i * 37); s.str[i] = (char)(c == 0 ? 1 : c); }  // any byte except NUL
        }
        else if (k == 5) { s.tag = TAG_OPAQUE; s.bits = *rc::gen::arbitrary<uint64_t>(); }
        else if (k == 6) { s.tag = TAG_VOID; }
        else {
            s.tag = TAG_ARRAY;
            s.etype = *rc::gen::elementOf(std::vector<uint8_t>{TAG_INT, TAG_STRING, TAG_FLOAT, TAG_BOOL, TAG_ARRAY});
            int n = *rc::gen::inRange(0, 6);
            // long flat arrays: the element count must not be confused with the nesting depth (limit 64)
            if (*rc::gen::resize(100, rc::gen::inRange(0, 8)) == 0) n = *rc::gen::elementOf(std::vector<int>{63, 64, 65, 66, 200, 1000});
            for (int i = 0; i < n; i++) {
                if (n > 6) {            // small scalars only, so that the whole value stays far below the probe's buffer
                    Spec e;
                    e.tag = TAG_INT;
                    e.bits = (uint64_t)(i * 7919);
                    s.elems.push_back(e);
                } else {
                    s.elems.push_back(*genSpec(depth - 1));
                }
            }
        }
        return s;
    });
}

static NanoValue build(const Spec &s, VmHeap *h) {
    NanoValue v;
    memset(&v, 0, sizeof v);
    v.tag = s.tag;
    switch (s.tag) {
        case TAG_INT: v.as.i64 = (int64_t)s.bits; break;
        case TAG_FLOAT: memcpy(&v.as.f64, &s.bits, 8); break;
        case TAG_BOOL: v.as.boolean = s.bits & 1; break;
        case TAG_STRING: v.as.string = vm_string_new(h, s.str.data(), (uint32_t)s.str.size()); break;
        case TAG_OPAQUE: v.as.i64 = (int64_t)s.bits; break;
        case TAG_ARRAY: {
            VmArray *a = vm_array_new(h, s.etype, (uint32_t)(s.elems.size() ? s.elems.size() : 4));
            for (auto &e : s.elems) vm_array_push(a, build(e, h));
            v.as.array = a;
            break;
        }
        default: break;
    }
    return v;
}

static std::string same(const Spec &s, const NanoValue &v) {
    if (v.tag != s.tag) return "tag differs";
    switch (s.tag) {
        case TAG_INT: case TAG_OPAQUE: return (uint64_t)v.as.i64 == s.bits ? "" : "int/opaque value differs";
        case TAG_FLOAT: { uint64_t b; memcpy(&b, &v.as.f64, 8); return b == s.bits ? "" : "float bits differ"; }
        case TAG_BOOL: return v.as.boolean == (bool)(s.bits & 1) ? "" : "bool differs";
        case TAG_STRING:
            if (!v.as.string) return "string is NULL";
            if (v.as.string->length != s.str.size()) return "string length differs";
            return memcmp(v.as.string->data, s.str.data(), s.str.size()) == 0 ? "" : "string bytes differ";
        case TAG_ARRAY: {
            if (!v.as.array) return "array is NULL";
            if (v.as.array->length != s.elems.size()) return "array length differs";
            if (v.as.array->elem_type != s.etype) return "array element type differs";
            for (size_t i = 0; i < s.elems.size(); i++) { std::string e = same(s.elems[i], v.as.array->elements[i]); if (!e.empty()) return "element " + std::to_string(i) + ": " + e; }
            return "";
        }
        default: return "";
    }
}

static bool interesting(const Spec &s) {
    if (s.tag == TAG_STRING) { if (s.str.size() > 255) return true; for (unsigned char c : s.str) if (c >= 0x80) return true; }
    if (s.tag == TAG_INT && (int64_t)s.bits < 0) return true;
    if (s.tag == TAG_FLOAT && ((s.bits >> 52) & 0x7ff) == 0x7ff) return true;
    if (s.tag == TAG_ARRAY) { if (!s.elems.empty()) return true; }
    for (auto &e : s.elems) if (interesting(e)) return true;
    return false;
}

static std::string describe(const Spec &s) {
    char b[64];
    switch (s.tag) {
        case TAG_INT: snprintf(b, sizeof b, "int:%" PRId64, (int64_t)s.bits); return b;
        case TAG_FLOAT: snprintf(b, sizeof b, "float:0x%" PRIx64, s.bits); return b;
        case TAG_BOOL: return s.bits ? "true" : "false";
        case TAG_STRING: snprintf(b, sizeof b, "string[%zu]", s.str.size()); return b;
        case TAG_OPAQUE: return "opaque";
        case TAG_VOID: return "void";
        case TAG_ARRAY: { std::string r = "["; for (auto &e : s.elems) r += describe(e) + ","; return r + "]"; }
    }
    return "?";
}

static void put32(std::vector<uint8_t> &b, size_t at, uint32_t v) { if (at + 4 <= b.size()) memcpy(b.data() + at, &v, 4); }

static int mode_hostile() {
    static const std::vector<uint32_t> BOUND = {0, 1, 4, 5, 0x7fffffff, 0x80000000u, 0xfffffff0u, 0xfffffffbu, 0xfffffffcu, 0xffffffffu, 0x10000, 0x00ffffff};
    bool ok = rc::check("cop decoder on hostile bytes", [&]() {
        VmHeap h1, h2;
        vm_heap_init(&h1);
        vm_heap_init(&h2);
        int kind = *rc::gen::resize(100, rc::gen::inRange(0, 7));
        std::vector<uint8_t> b;
        std::string cls;
        if (kind <= 3) {
            Spec s = *genSpec(3);
            NanoValue v = build(s, &h1);
            std::vector<uint8_t> big(400000);
            uint32_t n = cop_serialize_value(&v, big.data(), (uint32_t)big.size());
            b.assign(big.begin(), big.begin() + n);
            if (kind == 0) {           // overwrite a 32-bit field at a drawn offset with a boundary value
                cls = "field_boundary";
                if (b.size() >= 5) put32(b, *rc::gen::inRange<size_t>(1, b.size() - 3), *rc::gen::elementOf(BOUND));
            } else if (kind == 1) {    // truncate
                cls = "truncated";
                b.resize(*rc::gen::inRange<size_t>(0, b.size() + 1));
            } else if (kind == 2) {    // flip a tag-like byte
                cls = "byte_replaced";
                if (!b.empty()) b[*rc::gen::inRange<size_t>(0, b.size())] = *rc::gen::elementOf(std::vector<uint8_t>{0, 1, 2, 3, 4, 5, 6, 7, 8, 9, 0x63, 0xff});
            } else {                   // splice two values
                cls = "spliced";
                Spec s2 = *genSpec(2);
                NanoValue v2 = build(s2, &h1);
                uint32_t n2 = cop_serialize_value(&v2, big.data(), (uint32_t)big.size());
                size_t cut = b.empty() ? 0 : *rc::gen::inRange<size_t>(0, b.size());
                b.resize(cut);
                b.insert(b.end(), big.begin(), big.begin() + n2);
            }
        } else if (kind == 4) {        // string / array headers with boundary lengths and little data
            cls = "header_only";
            uint8_t tag = *rc::gen::elementOf(std::vector<uint8_t>{TAG_STRING, TAG_ARRAY});
            b.push_back(tag);
            if (tag == TAG_ARRAY) b.push_back(*rc::gen::elementOf(std::vector<uint8_t>{TAG_INT, TAG_STRING, TAG_ARRAY, 0x63}));
            uint32_t v = *rc::gen::elementOf(BOUND);
            b.resize(b.size() + 4);
            memcpy(b.data() + b.size() - 4, &v, 4);
            int extra = *rc::gen::inRange(0, 12);
            for (int i = 0; i < extra; i++) b.push_back((uint8_t)(i * 29 + 5));
        } else if (kind == 5) {        // deep nesting
            cls = "deep_nesting";
            int depth = *rc::gen::elementOf(std::vector<int>{10, 63, 64, 65, 66, 1000, 60000});
            for (int i = 0; i < depth; i++) { b.push_back(TAG_ARRAY); b.push_back(TAG_ARRAY); uint32_t one = 1; b.resize(b.size() + 4); memcpy(b.data() + b.size() - 4, &one, 4); }
            b.push_back(TAG_INT);
            for (int i = 0; i < 8; i++) b.push_back(0);
        } else {                       // random bytes
            cls = "random_bytes";
            b = *rc::gen::container<std::vector<uint8_t>>(rc::gen::arbitrary<uint8_t>());
        }
        // exact-size heap copy so that any read past the end is an ASan report
        uint8_t *exact = (uint8_t *)malloc(b.size() ? b.size() : 1);
        if (!b.empty()) memcpy(exact, b.data(), b.size());
        NanoValue out;
        memset(&out, 0, sizeof out);
        uint32_t c = cop_deserialize_value(exact, (uint32_t)b.size(), &out, &h2);
        free(exact);
        g_eval++;
        g_cls[cls + (c ? "_decoded" : "_refused")]++;
        if (c == 0) g_nontrivial.insert(fnv(b.data(), b.size()));
        if (g_samples.size() < 4 && g_eval % 97 == 5) g_samples.push_back(cls + " " + std::to_string(b.size()) + " bytes -> " + std::to_string(c));
        if (c > b.size()) g_last = "decoder reports " + std::to_string(c) + " bytes consumed from a buffer of " + std::to_string(b.size()) + " (" + cls + ")";
        RC_ASSERT(c <= b.size());
    });
    if (!ok) printf("FAIL %s\n", g_last.c_str());
    printf("SUMMARY {\"evaluations\": %" PRIu64 ", \"distinct_nontrivial\": %zu, \"classes\": {", g_eval, g_nontrivial.size());
    bool first = true;
    for (auto &kv : g_cls) { printf("%s%s: %" PRIu64, first ? "" : ", ", jstr(kv.first).c_str(), kv.second); first = false; }
    printf("}, \"samples\": [");
    for (size_t i = 0; i < g_samples.size(); i++) printf("%s%s", i ? ", " : "", jstr(g_samples[i]).c_str());
    printf("]}\n");
    return ok ? 0 : 1;
}

int main(int argc, char **argv) {
    if (argc >= 2 && std::string(argv[1]) == "hostile") return mode_hostile();
    if (argc < 2 || std::string(argv[1]) != "rt") return 2;
    bool ok = rc::check("cop value round trip", [&]() {
        Spec s = *genSpec(3);
        VmHeap h1, h2;
        vm_heap_init(&h1);
        vm_heap_init(&h2);
        NanoValue v = build(s, &h1);
        std::vector<uint8_t> big(400000);
        uint32_t n = cop_serialize_value(&v, big.data(), (uint32_t)big.size());
        std::string err;
        if (n == 0) err = "serialize failed with a 400000-byte buffer";
        if (err.empty()) {
            // exact-fit heap buffer
            uint8_t *exact = (uint8_t *)malloc(n);
            uint32_t n2 = cop_serialize_value(&v, exact, n);
            if (n2 != n || memcmp(exact, big.data(), n) != 0) err = "serialize into an exact-fit buffer differs";
            // one byte short and zero-size buffers are refused
            if (err.empty() && n > 1) {
                uint8_t *small = (uint8_t *)malloc(n - 1);
                if (cop_serialize_value(&v, small, n - 1) != 0) err = "serialize into a buffer one byte too small did not fail";
                free(small);
            }
            if (err.empty()) { uint8_t z[1]; if (cop_serialize_value(&v, z, 0) != 0) err = "serialize into an empty buffer did not fail"; }
            if (err.empty()) {
                NanoValue out;
                memset(&out, 0, sizeof out);
                uint32_t c = cop_deserialize_value(exact, n, &out, &h2);
                if (c != n) err = "deserialize consumed " + std::to_string(c) + " of " + std::to_string(n) + " bytes";
                else err = same(s, out);
                // truncated input is refused
                if (err.empty() && n > 1 && s.tag != TAG_VOID) {
                    uint8_t *trunc = (uint8_t *)malloc(n - 1);
                    memcpy(trunc, exact, n - 1);
                    NanoValue o2;
                    if (cop_deserialize_value(trunc, n - 1, &o2, &h2) != 0) err = "deserialize of a truncated value did not fail";
                    free(trunc);
                }
            }
            free(exact);
        }
        g_eval++;
        g_cls[std::string("top_") + isa_tag_name(s.tag)]++;
        if (interesting(s)) {
            g_nontrivial.insert(fnv(big.data(), n));
            if (g_samples.size() < 4 && g_eval % 61 == 3) g_samples.push_back(describe(s).substr(0, 160));
        }
        if (!err.empty()) g_last = err + " | " + describe(s).substr(0, 300);
        RC_ASSERT(err.empty());
    });
    if (!ok) printf("FAIL %s\n", g_last.c_str());
    printf("SUMMARY {\"evaluations\": %" PRIu64 ", \"distinct_nontrivial\": %zu, \"classes\": {", g_eval, g_nontrivial.size());
    bool first = true;
    for (auto &kv : g_cls) { printf("%s%s: %" PRIu64, first ? "" : ", ", jstr(kv.first).c_str(), kv.second); first = false; }
    printf("}, \"samples\": [");
    for (size_t i = 0; i < g_samples.size(); i++) printf("%s%s", i ? ", " : "", jstr(g_samples[i]).c_str());
    printf("]}\n");
    return ok ? 0 : 1;
}
